import Ts.Order
import Ts.DeploySpec
import Ts.ResolveSound
import Ts.ResolveComplete

/-! # C10 — property theorems (statements only; proofs live in the family libraries)

`Pipeline.resolve` on item sets in which every entity has at most one provider is *proved* (`resolveU_sound`, about the
model `resolveU` that is compared with the real function on every run; its premises are the decidable `wfItemsCheck`,
evaluated by the driver on every compared case).  The ambiguity block of `resolve` (an entity with two providers) is
validated per run: every order the real `Initialize` returns is checked by `Ord.orderValid`; `orderValid_sound` is the
proof that acceptance implies the property, `down_sound` that the exemption it uses is exactly "downstream" and no more. -/

set_option linter.unusedVariables false

namespace Props.C10

section
open Ord

theorem orderValid_sound :
    ∀ (items : List Item) (order : List Nat) (h : orderValid items order = true),
    order.Nodup ∧ (∀ x ∈ order, x < items.length) ∧ (∀ i, i < items.length → i ∈ order) ∧
    ∀ i q, i < items.length → q < items.length → q ≠ i → providesFor items q i = true →
      ¬ Down items i q → order.idxOf q < order.idxOf i :=
  @Ord.orderValid_sound

theorem down_sound :
    ∀ (items : List Item) (i q : Nat) (h : q ∈ down items i), Down items i q :=
  @Ord.down_sound
end

section
open Dp

/-- deployment (model of Pipeline.DeployItem, compared with the real function on a synthetic registry on every run): for
a registry with distinct item names the leaf is added, followed by exactly the items reachable from it through
requirements that are enabled under the features in force and not already present - nothing else, nothing twice -/
theorem deploy_spec :
    ∀ (reg : List DItem) (hreg : (names reg).Nodup) (feats0 present : List Nat) (leaf : DItem),
    ∃ rest, deploy reg feats0 present leaf = leaf :: rest ∧ (names rest).Nodup ∧
      (∀ x ∈ rest, x.name ∉ present ++ [leaf.name]) ∧
      (∀ x, x ∈ rest ↔ New reg (feats0 ++ leaf.features) (present ++ [leaf.name]) leaf x) :=
  @Dp.deploy_spec
end

section
open Ts Kahn

/-- `Pipeline.resolve`, every entity provided at most once: a successful resolution is a duplicate-free list of exactly the
items; every requirement of every item has a provider among them; every provider comes before the item that requires it -/
theorem resolveU_sound :
    ∀ (items : List RItem) (hw : WFItems items) (order : List Nat) (h : resolveU items = .ok order),
    order.Nodup ∧ (∀ x, x ∈ order ↔ ∃ it ∈ items, x = it.name) ∧
    (∀ q ∈ items, ∀ k ∈ q.requires, ∃ p ∈ items, k ∈ p.provides) ∧
    (∀ q ∈ items, ∀ k ∈ q.requires, ∀ p ∈ items, k ∈ p.provides → Before order p.name q.name) :=
  @Ts.resolveU_sound

/-- the converse: `resolve` refuses only what it must - when every requirement has a provider and the provider/requirement
edges (item -> entity -> item) have no cycle, it succeeds -/
theorem resolveU_complete :
    ∀ (items : List RItem) (hw : WFItems items)
    (hsat : ∀ q ∈ items, ∀ k ∈ q.requires, ∃ p ∈ items, k ∈ p.provides) (hacyc : Ranked (depEdges items)),
    ∃ order, resolveU items = .ok order :=
  @Ts.resolveU_complete

/-- both directions together: on item sets with at most one provider per entity `resolve` succeeds exactly when every
requirement is provided and the dependency edges are acyclic -/
theorem resolveU_iff :
    ∀ (items : List RItem) (hw : WFItems items),
    (∃ order, resolveU items = .ok order) ↔
      ((∀ q ∈ items, ∀ k ∈ q.requires, ∃ p ∈ items, k ∈ p.provides) ∧ Ranked (depEdges items)) :=
  @Ts.resolveU_iff

/-- the premises are decided by a checker the driver runs on every compared case -/
theorem wfItemsCheck_sound :
    ∀ (items : List RItem) (h : wfItemsCheck items = true), WFItems items :=
  @Ts.wfItemsCheck_sound
end

end Props.C10
