import Ts.Order
import Ts.DeploySpec

/-! # C10 — property theorems (statements only; proofs live in the family libraries)

The planner-like part of C10 (`Pipeline.resolve`) is validated per run: every order the real `Initialize` returns is
checked by `Ord.orderValid`; `orderValid_sound` is the proof that acceptance implies the property, `down_sound` that the
exemption it uses is exactly "downstream" and no more. -/

set_option linter.unusedVariables false

namespace Props.C10

section
open Ord

theorem orderValid_sound :
    ∀ (items : List Item) (order : List Nat) (h : orderValid items order = true),
    order.Nodup ∧ (∀ x ∈ order, x < items.length) ∧ (∀ i, i < items.length → i ∈ order) ∧
    ∀ i q, i < items.length → q < items.length → q ≠ i → providesFor items q i = true →
      ¬ Down items i q → order.idxOf q < order.idxOf i :=
  @Ord.orderValid_sound

theorem down_sound :
    ∀ (items : List Item) (i q : Nat) (h : q ∈ down items i), Down items i q :=
  @Ord.down_sound
end

section
open Dp

/-- deployment (model of Pipeline.DeployItem, compared with the real function on a synthetic registry on every run): for
a registry with distinct item names the leaf is added, followed by exactly the items reachable from it through
requirements that are enabled under the features in force and not already present - nothing else, nothing twice -/
theorem deploy_spec :
    ∀ (reg : List DItem) (hreg : (names reg).Nodup) (feats0 present : List Nat) (leaf : DItem),
    ∃ rest, deploy reg feats0 present leaf = leaf :: rest ∧ (names rest).Nodup ∧
      (∀ x ∈ rest, x.name ∉ present ++ [leaf.name]) ∧
      (∀ x, x ∈ rest ↔ New reg (feats0 ++ leaf.features) (present ++ [leaf.name]) leaf x) :=
  @Dp.deploy_spec
end

end Props.C10
