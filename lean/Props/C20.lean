import Td.Apply
import Td.Filter
import Td.BlobHealthy
import Td.Consume

/-! # C20 — property theorems (statements only; proofs live in the family libraries) -/

set_option linter.unusedVariables false

namespace Props.C20

section
open Td

theorem diffTree_applies :
    ∀ (prev cur : List File)
    (hp : (prev.map (·.path)).Nodup) (hc : (cur.map (·.path)).Nodup) (p : String),
    after prev (diffTree prev cur) p = (find cur p).map hm :=
  @Td.diffTree_applies
end

section
open Td

theorem filtered_applies :
    ∀ (cfg : Cfg) (vend rxm : String → Bool) (hs : Sane cfg) (prev cur : List File)
    (hp : (prev.map (·.path)).Nodup) (hc : (cur.map (·.path)).Nodup)
    (hfp : Facts vend rxm prev) (hfc : Facts vend rxm cur) (p : String),
    after (prev.filter fun f => pass cfg vend rxm f.path) ((diffTree prev cur).filter (keep cfg)) p =
      (find (cur.filter fun f => pass cfg vend rxm f.path) p).map hm :=
  @Td.filtered_applies
end

section
open Bc

theorem consume_healthy :
    ∀ (prev : Cache) (hp : AllBlob prev) (chs : List Chg) (hh : Healthy chs),
    ∃ st, consume prev chs = some st ∧ AllBlob st.next ∧
      ∀ c ∈ chs, ∀ e ∈ c.ents, get st.out e.hash = some .blob :=
  @Bc.consume_healthy
end

section
open Td

/-- a commit whose parents do not include the branch's previous commit is refused, and nothing else is -/
theorem consume_refuses_iff :
    ∀ (cfg : Cfg) (s : St) (commit : Nat) (parents : List Nat) (tree : List File),
    (∃ e, consume cfg s commit parents tree = .error e) ↔ ∃ p, s.prevCommit = some p ∧ p ∉ parents :=
  @Td.consume_refuses_iff

/-- the first commit of a branch reports every passing file as an addition (submodule entries: finding D15) -/
theorem consume_first :
    ∀ (cfg : Cfg) (commit : Nat) (parents : List Nat) (tree : List File),
    consume cfg ⟨none, none⟩ commit parents tree =
      .ok (⟨some tree, some commit⟩,
           ((tree.filter fun f => !f.sub).map fun f => (⟨none, some f⟩ : Change)).filter (keep cfg)) :=
  @Td.consume_first

/-- along a branch: for consecutive commits (each a child of the previous one) every replay succeeds and the changes
reported for each commit turn the filtered file set of the previous commit into the filtered file set of that commit -/
theorem replay_applies :
    ∀ (cfg : Cfg) (vend rxm : String → Bool) (hs : Sane cfg)
    (rest : List (Nat × List Nat × List File)) (prev : List File) (pc : Nat),
    Chained pc rest → (prev.map (·.path)).Nodup → Facts vend rxm prev →
    (∀ x ∈ rest, (x.2.2.map (·.path)).Nodup ∧ Facts vend rxm x.2.2) →
    ∃ out, replay cfg ⟨some prev, some pc⟩ rest = .ok out ∧ out.length = rest.length ∧
      ∀ i (hi : i < rest.length) (ho : i < out.length) (p : String),
        after (((if i = 0 then prev else (rest[i - 1]'(by omega)).2.2)).filter fun f => pass cfg vend rxm f.path) (out[i]'ho) p =
          (find ((rest[i]'hi).2.2.filter fun f => pass cfg vend rxm f.path) p).map hm :=
  @Td.replay_applies
end

end Props.C20
