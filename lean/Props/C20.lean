import Td.Apply
import Td.Filter
import Td.BlobHealthy

/-! # C20 — property theorems (statements only; proofs live in the family libraries) -/

set_option linter.unusedVariables false

namespace Props.C20

section
open Td

theorem diffTree_applies :
    ∀ (prev cur : List File)
    (hp : (prev.map (·.path)).Nodup) (hc : (cur.map (·.path)).Nodup) (p : String),
    after prev (diffTree prev cur) p = (find cur p).map hm :=
  @Td.diffTree_applies
end

section
open Td

theorem filtered_applies :
    ∀ (cfg : Cfg) (vend rxm : String → Bool) (hs : Sane cfg) (prev cur : List File)
    (hp : (prev.map (·.path)).Nodup) (hc : (cur.map (·.path)).Nodup)
    (hfp : Facts vend rxm prev) (hfc : Facts vend rxm cur) (p : String),
    after (prev.filter fun f => pass cfg vend rxm f.path) ((diffTree prev cur).filter (keep cfg)) p =
      (find (cur.filter fun f => pass cfg vend rxm f.path) p).map hm :=
  @Td.filtered_applies
end

section
open Bc

theorem consume_healthy :
    ∀ (prev : Cache) (hp : AllBlob prev) (chs : List Chg) (hh : Healthy chs),
    ∃ st, consume prev chs = some st ∧ AllBlob st.next ∧
      ∀ c ∈ chs, ∀ e ∈ c.ents, get st.out e.hash = some .blob :=
  @Bc.consume_healthy
end

end Props.C20
