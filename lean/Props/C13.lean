import Rn.Basic

/-! # C13 — property theorems (statements only; proofs live in the family libraries) -/

set_option linter.unusedVariables false

namespace Props.C13

section
open Rn

theorem scan_count :
    ∀ (a d : List Nat) (ha : SortedLE a) (hd : SortedLE d) (h : Nat),
    List.count h (scan a d).1 = min (List.count h a) (List.count h d) :=
  @Rn.scan_count
end

section
open Rn

theorem scan_partition :
    ∀ (a d : List Nat) (h : Nat),
    List.count h a = List.count h (scan a d).1 + List.count h (scan a d).2.1 ∧
    List.count h d = List.count h (scan a d).1 + List.count h (scan a d).2.2 :=
  @Rn.scan_partition
end

end Props.C13
