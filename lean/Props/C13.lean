import Rn.Basic
import Rn.Stage2

/-! # C13 — property theorems (statements only; proofs live in the family libraries) -/

set_option linter.unusedVariables false

namespace Props.C13

section
open Rn

theorem scan_count :
    ∀ (a d : List Nat) (ha : SortedLE a) (hd : SortedLE d) (h : Nat),
    List.count h (scan a d).1 = min (List.count h a) (List.count h d) :=
  @Rn.scan_count
end

section
open Rn

theorem scan_partition :
    ∀ (a d : List Nat) (h : Nat),
    List.count h a = List.count h (scan a d).1 + List.count h (scan a d).2.1 ∧
    List.count h d = List.count h (scan a d).1 + List.count h (scan a d).2.2 :=
  @Rn.scan_partition
end

section
open Rn

/-- stages 2-3 and the final result: whatever legal pairs the two concurrent matchers report (any schedule, any winner,
any timeout), every deleted path appears exactly once (rename source or remaining deletion) and every added path
exactly once (rename target or remaining addition) -/
theorem applyMatches_perm :
    ∀ (del add : List Nat) (ms : List (Nat × Nat)) (del' add' : List Nat)
    (h : applyMatches del add ms = some (del', add')),
    (ms.map (·.1) ++ del').Perm del ∧ (ms.map (·.2) ++ add').Perm add :=
  @Rn.applyMatches_perm
end

end Props.C13
