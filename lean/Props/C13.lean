import Rn.Basic
import Rn.Stage2
import Rn.ProtocolFacts

/-! # C13 — property theorems (statements only; proofs live in the family libraries) -/

set_option linter.unusedVariables false

namespace Props.C13

section
open Rn

theorem scan_count :
    ∀ (a d : List Nat) (ha : SortedLE a) (hd : SortedLE d) (h : Nat),
    List.count h (scan a d).1 = min (List.count h a) (List.count h d) :=
  @Rn.scan_count
end

section
open Rn

theorem scan_partition :
    ∀ (a d : List Nat) (h : Nat),
    List.count h a = List.count h (scan a d).1 + List.count h (scan a d).2.1 ∧
    List.count h d = List.count h (scan a d).1 + List.count h (scan a d).2.2 :=
  @Rn.scan_partition
end

section
open Rn

/-- stages 2-3 and the final result: whatever legal pairs the two concurrent matchers report (any schedule, any winner,
any timeout), every deleted path appears exactly once (rename source or remaining deletion) and every added path
exactly once (rename target or remaining addition) -/
theorem applyMatches_perm :
    ∀ (del add : List Nat) (ms : List (Nat × Nat)) (del' add' : List Nat)
    (h : applyMatches del add ms = some (del', add')),
    (ms.map (·.1) ++ del').Perm del ∧ (ms.map (·.2) ++ add').Perm add :=
  @Rn.applyMatches_perm
end

section
open RnP

/-- the hand-off protocol of the two concurrent matchers, for every schedule: whenever both have returned at least one
ran to completion (the "Impossible happened" panic is unreachable) and `finished` never holds more than its two slots -/
theorem handoff_safe :
    ∀ (es : List Ev) (ha : (run init es).a ≠ .running) (hb : (run init es).b ≠ .running),
    ((run init es).a = .completed ∨ (run init es).b = .completed) ∧ (run init es).tokens ≤ 2 :=
  @RnP.handoff_safe

/-- no step of a running matcher waits for the other one -/
theorem never_blocked :
    ∀ (s : St) (w : Who) (h : phase s w = .running),
    (step s (.work w)).isSome ∧ (step s (.complete w)).isSome :=
  @RnP.never_blocked

/-- what the protocol model assumes about the source, re-read from internal/plumbing/renames.go on every run -/
theorem protocol_facts :
    Gen.renameChanCaps = [("finished", 2), ("finishedA", 1), ("finishedB", 1)] ∧
    Gen.renameUnbufferedChans = ["errs"] ∧
    Gen.rename_matchA = [("deferred sends to finished", 1), ("polls of finished", 1), ("returns on a received message", 1),
      ("returns after an error send", 1), ("other returns", 0)] ∧
    Gen.rename_matchA_lastSend = "finishedA" ∧
    Gen.rename_matchB = [("deferred sends to finished", 1), ("polls of finished", 1), ("returns on a received message", 1),
      ("returns after an error send", 1), ("other returns", 0)] ∧
    Gen.rename_matchB_lastSend = "finishedB" :=
  RnP.protocol_facts
end

end Props.C13
