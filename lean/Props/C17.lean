import Cd.Basic

/-! # C17 — property theorems (statements only; proofs live in the family libraries) -/

set_option linter.unusedVariables false

namespace Props.C17

section
open Cd

theorem row_roundtrip :
    ∀ (row : List Int) (hb : ∀ v ∈ row, v < U32),
    decRow row.length (encRow row) = row.map (fun v => if v < 0 then 0 else v) :=
  @Cd.row_roundtrip
end

end Props.C17
