import Cd.Basic
import Cd.Couples

/-! # C17 — property theorems (statements only; proofs live in the family libraries) -/

set_option linter.unusedVariables false

namespace Props.C17

section
open Cd

theorem row_roundtrip :
    ∀ (row : List Int) (hb : ∀ v ∈ row, v < U32),
    decRow row.length (encRow row) = row.map (fun v => if v < 0 then 0 else v) :=
  @Cd.row_roundtrip
end

section
open CdC

/-- couples matrices: reading back the CSR encoding gives the same rows (explicit zero entries included) -/
theorem couples_decode_encode :
    ∀ (m : List Row), decode (encode m) = m :=
  @CdC.decode_encode
end

end Props.C17
