import Cd.Basic
import Cd.Couples
import Cd.Devs

/-! # C17 — property theorems (statements only; proofs live in the family libraries) -/

set_option linter.unusedVariables false

namespace Props.C17

section
open Cd

theorem row_roundtrip :
    ∀ (row : List Int) (hb : ∀ v ∈ row, v < U32),
    decRow row.length (encRow row) = row.map (fun v => if v < 0 then 0 else v) :=
  @Cd.row_roundtrip
end

section
open CdC

/-- couples matrices: reading back the CSR encoding gives the same rows (explicit zero entries included) -/
theorem couples_decode_encode :
    ∀ (m : List Row), decode (encode m) = m :=
  @CdC.decode_encode
end

section
open CdD

/-- the developers message: when every counter and key fits 32 bits (the width of the format) and developer keys are
real indexes or the unmatched author, reading back what was written gives the same ticks, developers (the unmatched
author goes through -1 and comes back), commits, line statistics and per-language statistics -/
theorem devs_decode_encode :
    ∀ (am : Int) (t : Ticks) (h : Fits am t), decode am (encode am t) = t :=
  @CdD.decode_encode
end

end Props.C17
