import Tk.Basic
import Tk.Registry

/-! # C19 — property theorems (statements only; proofs live in the family libraries) -/

set_option linter.unusedVariables false

namespace Props.C19

section
open Tk

theorem floorTime_spec :
    ∀ (t d : Int) (hd : 0 < d),
    floorTime t d = t - t % d :=
  @Tk.floorTime_spec
end

section
open Tk

theorem floorTime_dvd :
    ∀ (t d : Int) (hd : 0 < d),
    d ∣ floorTime t d :=
  @Tk.floorTime_dvd
end

section
open Tk

theorem tickOf_ge_prev :
    ∀ (tick0 t d prev : Int),
    prev ≤ tickOf tick0 t d prev :=
  @Tk.tickOf_ge_prev
end

section
open Tk

theorem tickOf_spec :
    ∀ (tick0 t d prev : Int) (hd : 0 < d) (hge : tick0 ≤ t) (hr : t - tick0 ≤ maxDur),
    tickOf tick0 t d prev = max prev ((t - tick0) / d) :=
  @Tk.tickOf_spec
end

section
open Tk

theorem tickOf_monotone_times :
    ∀ (tick0 t t' d prev : Int) (hd : 0 < d) (h0 : tick0 ≤ t') (hle : t' ≤ t)
    (hr : t - tick0 ≤ maxDur) (hprev : prev = (t' - tick0) / d),
    tickOf tick0 t d prev = (t - tick0) / d :=
  @Tk.tickOf_monotone_times
end

section
open Tk

/-- the registry lists an analysed commit under the tick it was given -/
theorem record_lists :
    ∀ (r : Reg) (tick : Int) (commit np : Nat), commit ∈ regGet (record r tick commit np) tick :=
  @Tk.record_lists

/-- if every replay of a commit gets the same tick (monotone committer times, `tickOf_monotone_times`) and parentless
commits are replayed once, every replayed commit is listed exactly once however often it is replayed -/
theorem recordAll_once :
    ∀ (tk : Nat → Int) (rs : List Replay) (c : Nat)
    (hsame : ∀ x ∈ rs, x.tick = tk x.commit)
    (hroot : ∀ x ∈ rs, x.nparents = 0 → (rs.filter (·.commit = x.commit)).length = 1),
    listed (recordAll [] rs) c = if rs.any (·.commit = c) then 1 else 0 :=
  @Tk.recordAll_once
end

end Props.C19
