import Tk.Basic

/-! # C19 — property theorems (statements only; proofs live in the family libraries) -/

set_option linter.unusedVariables false

namespace Props.C19

section
open Tk

theorem floorTime_spec :
    ∀ (t d : Int) (hd : 0 < d),
    floorTime t d = t - t % d :=
  @Tk.floorTime_spec
end

section
open Tk

theorem floorTime_dvd :
    ∀ (t d : Int) (hd : 0 < d),
    d ∣ floorTime t d :=
  @Tk.floorTime_dvd
end

section
open Tk

theorem tickOf_ge_prev :
    ∀ (tick0 t d prev : Int),
    prev ≤ tickOf tick0 t d prev :=
  @Tk.tickOf_ge_prev
end

section
open Tk

theorem tickOf_spec :
    ∀ (tick0 t d prev : Int) (hd : 0 < d) (hge : tick0 ≤ t) (hr : t - tick0 ≤ maxDur),
    tickOf tick0 t d prev = max prev ((t - tick0) / d) :=
  @Tk.tickOf_spec
end

section
open Tk

theorem tickOf_monotone_times :
    ∀ (tick0 t t' d prev : Int) (hd : 0 < d) (h0 : tick0 ≤ t') (hle : t' ≤ t)
    (hr : t - tick0 ≤ maxDur) (hprev : prev = (t' - tick0) / d),
    tickOf tick0 t d prev = (t - tick0) / d :=
  @Tk.tickOf_monotone_times
end

end Props.C19
