import Bd.Valid
import Ln.Basic
import Ln.Strip
import Bd.Canon

/-! # C11 — property theorems (statements only; proofs live in the family libraries) -/

set_option linter.unusedVariables false

namespace Props.C11

section
open Ln

theorem countLines_eq_split :
    ∀ (b : List Nat),
    countLines b = (splitLines b).length :=
  @Ln.countLines_eq_split
end

section
open Ln

theorem splitLines_join :
    ∀ (b : List Nat),
    (splitLines b).flatten = b :=
  @Ln.splitLines_join
end

section
open Bd

theorem translate_ok_of_canon :
    ∀ (s : List (EK × Nat)) (hpos : ∀ e ∈ s, e.2 > 0),
    ∀ (p : Option EK) (pos : Nat) (pending : EK × Nat) (acc : List Upd),
    canon p s = true → Rep p pending → ∃ us, translate s pos pending acc = .ok us :=
  @Bd.translate_ok_of_canon
end

section
open Bd

/-- the validator every produced diff goes through: acceptance means positive runs in canonical shape, exactly the old and
the new line count accounted for, the new version rebuilt from the old one (equal runs are the same lines), and
acceptance by the burndown edit loop -/
theorem validScript_sound :
    ∀ {α : Type} [DecidableEq α] (s : List (EK × Nat)) (old new : List α) (h : validScript s old new = true),
    (∀ e ∈ s, e.2 > 0) ∧ canon none s = true ∧
    oldLines s = old.length ∧ newLines s = new.length ∧
    rebuild s old (inserted s new) = new ∧
    ∃ us, translate s 0 (.eq, 0) [] = .ok us :=
  @Bd.validScript_sound
end

section
open Ln

/-- whitespace-ignore mode: removing the spaces (as `stripWhitespace` does) never changes the number of lines, so the
counts FileDiff reports for the stripped text are those of `CountLines` on the raw blob -/
theorem countLines_stripWS :
    ∀ (b : List Nat), countLines (stripWS b) = countLines b :=
  @Ln.countLines_stripWS
end

end Props.C11
