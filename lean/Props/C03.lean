import Fu.Top
import Fu.Top2
import Fu.Seq
import Fu.Guards
import Fu.DeltasTop
import Fu.MergeMode

/-! # C03 — property theorems (statements only; proofs live in the family libraries) -/

set_option linter.unusedVariables false

namespace Props.C03

section
open Fu

theorem update_refines_splice :
    ∀ (ns : List Node) (t pos ins del : Nat) (hwf : WF ns t)
    (hr : pos + del ≤ lastKey ns) (hnz : ¬ (ins = 0 ∧ del = 0)),
    ∃ ns' em, update true ns t pos ins del = .ok (ns', em) ∧
      flat ns' = splice (flat ns) t pos ins del :=
  @Fu.update_refines_splice
end

section
open Fu

theorem update_ok :
    ∀ (ns : List Node) (t pos ins del : Nat) (hwf : WF2 ns) (ht : t < END)
    (hr : pos + del ≤ lastKey ns) (hnz : ¬ (ins = 0 ∧ del = 0)),
    ∃ ns' em, update true ns t pos ins del = .ok (ns', em) ∧
      flat ns' = splice (flat ns) t pos ins del ∧ WF2 ns' ∧ lastKey ns' + del = lastKey ns + ins :=
  @Fu.update_ok
end

section
open Fu

theorem updates_refine :
    ∀ (ops : List Op),
    ∀ (ns : List Node), WF2 ns → allValid (flat ns) ops →
    ∃ ns', applyOps ns ops = some ns' ∧ flat ns' = spliceOps (flat ns) ops ∧ WF2 ns' :=
  @Fu.updates_refine
end

section
open Fu

theorem update_rejects :
    ∀ (ns : List Node) (t pos ins del : Nat) (hwf : WF2 ns)
    (hnz : ¬ (ins = 0 ∧ del = 0)) (hbad : lastKey ns < pos + del),
    (update true ns t pos ins del).isReject = true :=
  @Fu.update_rejects
end

section
open Fu

theorem newFile_wf :
    ∀ (t len : Nat),
    WF2 (newFile t len) ∧ flat (newFile t len) = List.replicate len t :=
  @Fu.newFile_wf
end

section
open Fu

theorem update_deltas :
    ∀ (ns : List Node) (t pos ins del : Nat) (hwf : WF2 ns) (ht : t < END) (hmt : NoMark t)
    (hnm : InnerNoMark ns) (hr : pos + del ≤ lastKey ns) (hnz : ¬ (ins = 0 ∧ del = 0))
    (ns' : List Node) (em : List (Nat × Nat × Int)) (hup : update true ns t pos ins del = .ok (ns', em)) (v : Nat),
    (List.count v (flat ns') : Int) = List.count v (flat ns) + emSum em v :=
  @Fu.update_deltas
end

section
open Fu

/-- merge mode is silent: an update whose stamp carries the merge mark (the replay of a merge commit) reports nothing
to the updaters, whatever the tree and the request are; the histories are settled by File.Merge (C07) -/
theorem update_mark_silent :
    ∀ (fixed : Bool) (ns : List Node) (t pos ins del : Nat) (h : t % (MARK + 1) = MARK)
    (ns' : List Node) (em : List (Nat × Nat × Int)) (hu : update fixed ns t pos ins del = .ok (ns', em)), em = [] :=
  @Fu.update_mark_silent
end

end Props.C03
