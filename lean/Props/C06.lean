import Rb.World
import Rb.Alloc
import Rb.Clone
import Hb.Round
import Hb.Disk
import Hb.File

/-! # C06 — property theorems (statements only; proofs live in the family libraries) -/

set_option linter.unusedVariables false

namespace Props.C06

section
open RbM
open Tree Color

theorem malloc_fresh :
    ∀ (w : World) (choice id sz : Nat) (gs : List Nat) (h : NoAlias w)
    (hm : malloc w choice = some (id, sz, gs)),
    let rest := ids w.focus ++ (w.others ++ gs)
    id ∉ rest ∧ rest.Nodup ∧ 1 ≤ id ∧ id < sz ∧ (∀ i ∈ rest, 1 ≤ i ∧ i < sz) ∧ rest.length + 2 = sz :=
  @RbM.malloc_fresh
end

section
open RbM
open Tree Color

theorem insertW_noAlias :
    ∀ (w w' : World) (k v choice : Nat) (h : NoAlias w) (hs : SortedKV w.focus.toList)
    (hi : insertW w k v choice = some w'),
    NoAlias w' :=
  @RbM.insertW_noAlias
end

section
open RbM
open Tree Color

theorem deleteW_noAlias :
    ∀ (w : World) (k : Nat) (h : NoAlias w) (hs : SortedKV w.focus.toList),
    NoAlias (deleteW w k) :=
  @RbM.deleteW_noAlias
end

section
open RbM
open Tree Color

theorem cloneDeep_spec :
    ∀ (t : Tree) (ids : List Nat) (h : ids.length = t.size) (hs : RBShape t),
    RBShape (cloneDeep t ids) ∧ (cloneDeep t ids).toList = ids.zip (t.toList.map (·.2)) :=
  @RbM.cloneDeep_spec
end

section
open Hb

theorem boot_hibernate :
    ∀ (a : Alloc) (h : Awake a),
    ∃ x, hibernate a = .ok x ∧ boot x = .ok a :=
  @Hb.boot_hibernate
end

section
open Hb

theorem boot_hibernate' :
    ∀ (a : Alloc) (h : Awake' a),
    ∃ x y, hibernate a = .ok x ∧ boot x = .ok y ∧ SameArena a y :=
  @Hb.boot_hibernate'
end

section
open Hb

theorem disk_roundtrip :
    ∀ (a : Alloc) (h : Awake' a)
    (hreal : a.threshold ≤ (a.storage.getD []).length ∧ (a.storage.getD []).length ≠ 0),
    ∃ x x' f x'' y, hibernate a = .ok x ∧ serialize x = .ok (x', f) ∧ deserialize x' f = .ok x'' ∧
      boot x'' = .ok y ∧ SameArena a y :=
  @Hb.disk_roundtrip
end

section
open Hb

theorem serialize_after_noop :
    ∀ (a : Alloc) (h : Awake a)
    (hs : (a.storage.getD []).length < a.threshold ∨ (a.storage.getD []).length = 0),
    ∃ x, hibernate a = .ok x ∧ ∃ m, serialize x = .panic m :=
  @Hb.serialize_after_noop
end

section
open RbM
open Tree Color

/-- `Erase` gives every node of the tree back: nothing is lost or duplicated and the free list grows by exactly the
erased elements (so `Used()` drops by that number) -/
theorem eraseW_noAlias :
    ∀ (w : World) (h : NoAlias w),
    NoAlias (eraseW w) ∧ ids (eraseW w).focus = [] ∧
    (eraseW w).gaps.length = w.gaps.length + (ids w.focus).length :=
  @RbM.eraseW_noAlias
end

section
open HbF

/-- byte level: a complete file written by `Serialize` reads back as what was written -/
theorem deserialize_serialize :
    ∀ (a b : Nat) (bufs : List (List Nat)),
    deserialize bufs.length (serialize a b bufs) = some (a, b, bufs) :=
  @HbF.deserialize_serialize

/-- byte level: EVERY strict prefix of a serialized allocator is refused (a truncated hibernation file never
yields an allocator) -/
theorem prefix_fails :
    ∀ (a b : Nat) (bufs : List (List Nat)) (n : Nat),
    n < (serialize a b bufs).length →
    deserialize bufs.length ((serialize a b bufs).take n) = none :=
  @HbF.prefix_fails
end

section
open RbW RbM

/-- independence: an insertion into tree `t` changes no other tree (e.g. a clone living on a cloned allocator) and no
allocator other than the one `t` lives on -/
theorem insert_frame :
    ∀ (w w' : W) (t k v id : Nat) (ok : Bool) (h : w.insert t k v id = some (w', ok)),
    (∀ t2, t2 ≠ t → w'.tree t2 = w.tree t2) ∧
    (∀ a tr, w.tree t = some (a, tr) → ∀ a2, a2 ≠ a → w'.arena a2 = w.arena a2) :=
  @RbW.insert_frame

theorem delete_frame :
    ∀ (w w' : W) (t k : Nat) (ok : Bool) (h : w.delete t k = some (w', ok)),
    (∀ t2, t2 ≠ t → w'.tree t2 = w.tree t2) ∧
    (∀ a tr, w.tree t = some (a, tr) → ∀ a2, a2 ≠ a → w'.arena a2 = w.arena a2) :=
  @RbW.delete_frame
end

section
open RbM

/-- the used-node count: on a non-empty arena `Used()` = storage size minus free slots = live nodes of all trees plus the
reserved slot (the invariant `NoAlias` that `insertW`, `deleteW`, `eraseW` preserve carries this accounting) -/
theorem used_count :
    ∀ (w : World) (h : NoAlias w) (hne : w.size ≠ 0),
    w.size - w.gaps.length = (ids w.focus).length + w.others.length + 1 :=
  @RbM.used_count
end

end Props.C06
