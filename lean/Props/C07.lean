import Mg.Basic
import Bd.MergeSame
import Bd.Rle
import Bd.ConflictFree
import Bd.MergeTruth

/-! # C07 — property theorems (statements only; proofs live in the family libraries) -/

set_option linter.unusedVariables false

namespace Props.C07

section
open Mg

theorem resolve_spec :
    ∀ (day l : Nat) (ols : List Nat),
    resolve day l ols =
      match bestFrom (start l) ols with
      | some b => (b, 0)
      | none => (day, if isMark day then 0 else 1) :=
  @Mg.resolve_spec
end

section
open Mg

theorem bestFrom_spec :
    ∀ (vs : List Nat) (cur : Option Nat),
    match bestFrom cur vs with
    | none => cur = none ∧ ∀ v ∈ vs, isMark v = true
    | some b => (cur = some b ∨ (b ∈ vs ∧ isMark b = false)) ∧
                (∀ c, cur = some c → tick b ≤ tick c) ∧
                (∀ v ∈ vs, isMark v = false → tick b ≤ tick v) :=
  @Mg.bestFrom_spec
end

section
open Bd

theorem merge_all_identical :
    ∀ (w w' : W) (bs : List Nat) (h : mergeBranches w bs = .ok w')
    (k : Nat) (hk : ∃ b ∈ bs, ∃ v, (k, v) ∈ w.mf (w.br b).mref),
    Agree w' bs k :=
  @Bd.merge_all_identical
end

section
open Bd Fu

/-- re-encoding a merged line array as interval nodes loses nothing -/
theorem flat_rle : ∀ (ls : List Nat), flat (rle ls) = ls := @Bd.flat_rle

/-- the interval list installed by the analysis-level merge flattens to the per-line resolution of the copies (which
`resolve_spec` characterises), with the length of the copies; copies of different length are refused -/
theorem merged_nodes_pointwise :
    ∀ (day : Nat) (mine : List Nat) (others : List (List Nat)) (lines : List Nat) (n : Nat)
    (h : mergeFile day mine others = some (lines, n)),
    (flat (rle lines)).length = mine.length ∧
    ∀ i (hi : i < mine.length), (flat (rle lines))[i]? = some (Mg.resolve day mine[i] (transpose others i)).1 :=
  @Bd.merged_nodes_pointwise

/-- conflict-free merge of one file (the file-level core of "merges reproduce the ground truth", shared with C01): when the
copies have the length of the true array and at every line each copy holds the true value or the merge mark, the merged
line is the true value wherever some copy knows it, and the merge value `day` where none does -/
theorem mergeFile_conflict_free :
    ∀ (day : Nat) (mine : List Nat) (others : List (List Nat)) (truth : List Nat)
    (hlen : ∀ c ∈ mine :: others, c.length = truth.length)
    (htruth : ∀ t ∈ truth, Mg.isMark t = false)
    (hall : ∀ c ∈ mine :: others, ∀ i (hi : i < truth.length),
      Mg.isMark (c.getD i 0) = true ∨ c.getD i 0 = truth[i]),
    ∃ lines n, mergeFile day mine others = some (lines, n) ∧ lines.length = truth.length ∧
      ∀ i (hi : i < truth.length),
        (flat (rle lines))[i]? =
          some (if ∃ c ∈ mine :: others, c.getD i 0 = truth[i] then truth[i] else day) :=
  @Bd.mergeFile_conflict_free

/-- ... and exactly the lines no copy knows are reported, once each (none at all when the merge value is itself the mark) -/
theorem mergeFile_conflict_free_reports :
    ∀ (day : Nat) (mine : List Nat) (others : List (List Nat)) (truth : List Nat)
    (hlen : ∀ c ∈ mine :: others, c.length = truth.length)
    (htruth : ∀ t ∈ truth, Mg.isMark t = false)
    (hall : ∀ c ∈ mine :: others, ∀ i (hi : i < truth.length),
      Mg.isMark (c.getD i 0) = true ∨ c.getD i 0 = truth[i])
    (lines : List Nat) (n : Nat) (hm : mergeFile day mine others = some (lines, n)),
    n = (if Mg.isMark day then 0 else 1) *
      ((List.range truth.length).filter fun i => !knownAt (mine :: others) truth i).length :=
  @Bd.mergeFile_conflict_free_reports

/-- per line: some copy knows the origin and no copy claims another one - the origin is kept and nothing is reported -/
theorem resolve_known :
    ∀ (day l : Nat) (ols : List Nat) (t : Nat) (ht : Mg.isMark t = false)
    (hall : ∀ v ∈ l :: ols, Mg.isMark v = true ∨ v = t) (hone : t ∈ l :: ols),
    Mg.resolve day l ols = (t, 0) :=
  @Bd.resolve_known
end

section
open Bd Fu Mg

/-- one file name through `BurndownAnalysis.Merge`: whatever the flag says and whoever holds the file, a conflict-free
`mergeKey` succeeds, leaves the expected file in every listed branch (the true origin wherever some copy knows it - never a
later tick, never the mark), touches no other file name, and appends exactly the expected reports -/
theorem mergeKey_conflict_free :
    ∀ (bs : List Nat) (flags : List (Nat × Bool)) (day : Nat) (w : W) (key : Nat)
    (truth : List Nat) (hcf : flagged flags key = true → ConflictFreeAt w bs key truth),
    ∃ w', mergeKey bs flags day w key = .ok w' ∧
      (∀ b ∈ bs, brFile (w'.br b) key = expectedFile (flagged flags key) (copiesOf w bs key) truth day) ∧
      (∀ k, k ≠ key → ∀ b, brFile (w'.br b) k = brFile (w.br b) k) ∧
      w'.evs = w.evs ++ expectedReports (flagged flags key) (copiesOf w bs key) truth day :=
  @Bd.mergeKey_conflict_free

/-- the file names the merge visits: every name flagged on some branch -/
theorem mem_mergeKeys :
    ∀ (flags : List (Nat × Bool)) (k : Nat), k ∈ mergeKeys flags ↔ ∃ v, (k, v) ∈ flags :=
  @Bd.mem_mergeKeys

/-- ... once each, in increasing order (the order of the reports does not depend on map iteration) -/
theorem mergeKeys_sorted :
    ∀ (flags : List (Nat × Bool)), (mergeKeys flags).Pairwise (· < ·) :=
  @Bd.mergeKeys_sorted
end

end Props.C07
