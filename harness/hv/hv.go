// Package hv holds the command-line convention shared by all correspondence probes:
//
//	<probe> <seed> <count> <ops-file> <impl-file> [extra...]
//
// Every random choice of a probe derives from the single seed; ops-file receives the
// operations (one per line, the input of the Lean driver), impl-file the canonicalised
// observations of the real code (one per line, compared with the driver's output).
package hv

import (
	"bufio"
	"fmt"
	"os"
	"strconv"
)

// Args parses the common command line. done flushes and closes both files.
func Args() (seed int64, count int, ops, impl *bufio.Writer, extra []string, done func()) {
	if len(os.Args) < 5 {
		fmt.Fprintf(os.Stderr, "usage: %s <seed> <count> <ops-file> <impl-file> [extra...]\n", os.Args[0])
		os.Exit(2)
	}
	seed, err := strconv.ParseInt(os.Args[1], 10, 64)
	if err != nil {
		fmt.Fprintln(os.Stderr, "bad seed:", err)
		os.Exit(2)
	}
	count, err = strconv.Atoi(os.Args[2])
	if err != nil {
		fmt.Fprintln(os.Stderr, "bad count:", err)
		os.Exit(2)
	}
	fo, err := os.Create(os.Args[3])
	if err != nil {
		fmt.Fprintln(os.Stderr, err)
		os.Exit(2)
	}
	fi, err := os.Create(os.Args[4])
	if err != nil {
		fmt.Fprintln(os.Stderr, err)
		os.Exit(2)
	}
	ops, impl = bufio.NewWriterSize(fo, 1<<20), bufio.NewWriterSize(fi, 1<<20)
	extra = os.Args[5:]
	done = func() {
		ops.Flush()
		impl.Flush()
		fo.Close()
		fi.Close()
	}
	return
}

var oracleFile *os.File

// Fail records a violation of the property observed on the implementation alone (no model involved):
// class is the name of a decidable class of inputs (matched against known_findings.json), the case is
// written as JSON and is the replay input.
func Fail(class string, caseJSON string, what string) {
	if oracleFile == nil {
		f, err := os.Create(os.Args[4] + ".oracle")
		if err != nil {
			fmt.Fprintln(os.Stderr, err)
			os.Exit(2)
		}
		oracleFile = f
	}
	fmt.Fprintf(oracleFile, "FAIL\t%s\t%s\t%s\n", class, caseJSON, what)
	oracleFile.Sync()
}

// Stats writes a JSON object of counters next to the impl file (summed over shards by bin/check).
func Stats(kv map[string]int) {
	f, err := os.Create(os.Args[4] + ".stats")
	if err != nil {
		return
	}
	defer f.Close()
	fmt.Fprint(f, "{")
	first := true
	for k, v := range kv {
		if !first {
			fmt.Fprint(f, ",")
		}
		first = false
		fmt.Fprintf(f, "%q:%d", k, v)
	}
	fmt.Fprint(f, "}")
}

// RunOracle is the main loop of an oracle-only probe (no Lean driver): case k of shard `seed` is derived from
// the single number seed*1000003+k.  one returns a JSON description of the case (the replay input), the class
// of a failure and its message ("" = the property held), and tags counted into the stats file.
func RunOracle(one func(caseSeed int64, extra []string) (descJSON, class, msg string, tags []string)) {
	seed, count, ops, impl, extra, done := Args()
	defer done()
	stats := map[string]int{}
	for k := 0; k < count; k++ {
		cs := seed*1000003 + int64(k)
		if v := os.Getenv("HV_CASE_SEED"); v != "" {
			fmt.Sscan(v, &cs) // replay of one recorded case
		}
		Current(fmt.Sprintf("%d", cs))
		desc, class, msg, tags := one(cs, extra)
		fmt.Fprintf(ops, "case %d %s\n", cs, desc)
		for _, t := range tags {
			stats[t]++
		}
		if msg == "" {
			fmt.Fprintln(impl, "ok")
			stats["ok"]++
		} else {
			fmt.Fprintln(impl, "fail")
			stats["fail"]++
			if len(msg) > 1500 {
				msg = msg[:1500]
			}
			clean := make([]rune, 0, len(msg))
			for _, r := range msg {
				if r == '\n' || r == '\t' {
					r = ' '
				}
				clean = append(clean, r)
			}
			Fail(class, desc, string(clean))
		}
	}
	Stats(stats)
}

// Current records the case that is about to run, so that a crash, hang or out-of-memory kill of the real code
// can be attributed to its input by bin/check.
func Current(desc string) {
	f, err := os.Create(os.Args[4] + ".current")
	if err != nil {
		return
	}
	fmt.Fprintln(f, desc)
	f.Close()
}
