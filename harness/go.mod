module gopkg.in/src-d/hercules.v10/verifharness

go 1.12

require (
	github.com/gogo/protobuf v1.3.0
	github.com/sergi/go-diff v1.0.0
	github.com/src-d/enry/v2 v2.1.0
	gopkg.in/src-d/go-git.v4 v4.10.0
	gopkg.in/src-d/hercules.v10 v10.0.0
)

replace gopkg.in/src-d/hercules.v10 => /repo

replace github.com/smacker/go-tree-sitter => github.com/dennwc/go-tree-sitter v0.0.0-20191127160809-cea124db9399
