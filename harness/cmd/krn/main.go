// krn: RenameAnalysis.Consume (C13).
// Even cases: every blob is smaller than RenameAnalysisMinimumSize, so stages 2-3 cannot match anything and the
// output is exactly the result of the stage-1 hash merge scan; it is compared with the Lean model Rn.scan
// (ops: scan <added hashes> <deleted hashes>; observable: matched / still added / still deleted hash multisets).
// All cases: Go-side statement of C13 on the implementation (oracle): the output is a re-pairing of the input
// and every shared content hash yields min(#added,#deleted) exact renames.
package main

import (
	"encoding/json"
	"fmt"
	"io/ioutil"
	"log"
	"math/big"
	"math/rand"
	"sort"
	"strings"

	"gopkg.in/src-d/go-git.v4"
	"gopkg.in/src-d/go-git.v4/plumbing"
	"gopkg.in/src-d/go-git.v4/plumbing/object"
	"gopkg.in/src-d/go-git.v4/storage/memory"
	"gopkg.in/src-d/go-git.v4/utils/merkletrie"
	items "gopkg.in/src-d/hercules.v10/internal/plumbing"
	"gopkg.in/src-d/hercules.v10/verifharness/hv"
)

// hnum: the 20 bytes as one big-endian number (decimal string), so that numeric order = lexicographic byte order
func hnum(h plumbing.Hash) string { return new(big.Int).SetBytes(h[:]).String() }

func join(xs []string) string {
	if len(xs) == 0 {
		return "-"
	}
	sort.Slice(xs, func(i, j int) bool {
		if len(xs[i]) != len(xs[j]) {
			return len(xs[i]) < len(xs[j])
		}
		return xs[i] < xs[j]
	})
	return strings.Join(xs, ",")
}

type chg struct {
	Kind string // add del mod
	Name string
	Hash string
	Size int
	To   string
}

func main() {
	log.SetOutput(ioutil.Discard)
	seed, count, wo, wi, _, done := hv.Args()
	defer done()
	repo, _ := git.Init(memory.NewStorage(), nil)
	stats := map[string]int{}
	for it := 0; it < count; it++ {
		rng := rand.New(rand.NewSource(seed*1000003 + int64(it)))
		small := it%2 == 0
		ra := &items.RenameAnalysis{SimilarityThreshold: rng.Intn(101)}
		if rng.Intn(8) == 0 {
			ra.Timeout = 1 // 1ns: the matchers stop at once
		}
		ra.Initialize(repo)
		cache := map[plumbing.Hash]*items.CachedBlob{}
		nContents := 2 + rng.Intn(6)
		type content struct {
			h    plumbing.Hash
			data []byte
		}
		var contents []content
		for i := 0; i < nContents; i++ {
			var h plumbing.Hash
			// a few byte positions from a tiny alphabet: many pairs are ordered differently byte-wise, and many
			// pairs share a long common prefix (1, 8, 12 or 19 bytes) and differ only later
			for _, k := range []int{0, 1, 2, 8, 12, 19} {
				h[k] = byte(1 + rng.Intn(3))
			}
			if rng.Intn(2) == 0 {
				h[0], h[1], h[2] = 1, 1, 1 // common prefix
				if rng.Intn(2) == 0 {
					h[8] = 1
				}
			}
			dup := false
			for _, c := range contents {
				if c.h == h {
					dup = true
				}
			}
			if dup {
				continue
			}
			sizes := []int{0, 5, 31, 32, 33, 40, 200}
			if small {
				sizes = []int{0, 5, 17, 31}
			}
			n := sizes[rng.Intn(len(sizes))]
			data := make([]byte, 0, n)
			for len(data) < n {
				data = append(data, []byte(fmt.Sprintf("line %d\n", rng.Intn(5)))...)
			}
			data = data[:n]
			if rng.Intn(6) == 0 && n > 0 {
				data[0] = 0
			}
			cb := &items.CachedBlob{Data: data}
			cb.Size = int64(len(data))
			cb.Hash = h
			cache[h] = cb
			contents = append(contents, content{h, data})
		}
		var changes object.Changes
		delCount, addCount := map[plumbing.Hash]int{}, map[plumbing.Hash]int{}
		var delNames, addNames, modNames []string
		var addH, delH []string
		var desc []chg
		n := 1 + rng.Intn(9)
		for i := 0; i < n; i++ {
			c := contents[rng.Intn(len(contents))]
			name := fmt.Sprintf("dir%d/f%d.txt", rng.Intn(2), i)
			switch rng.Intn(5) {
			case 0, 1:
				changes = append(changes, &object.Change{From: object.ChangeEntry{Name: name, TreeEntry: object.TreeEntry{Name: name, Hash: c.h}}})
				delCount[c.h]++
				delNames = append(delNames, name)
				delH = append(delH, hnum(c.h))
				desc = append(desc, chg{"del", name, hnum(c.h), len(c.data), ""})
			case 2, 3:
				changes = append(changes, &object.Change{To: object.ChangeEntry{Name: name, TreeEntry: object.TreeEntry{Name: name, Hash: c.h}}})
				addCount[c.h]++
				addNames = append(addNames, name)
				addH = append(addH, hnum(c.h))
				desc = append(desc, chg{"add", name, hnum(c.h), len(c.data), ""})
			case 4:
				c2 := contents[rng.Intn(len(contents))]
				changes = append(changes, &object.Change{
					From: object.ChangeEntry{Name: name, TreeEntry: object.TreeEntry{Name: name, Hash: c.h}},
					To:   object.ChangeEntry{Name: name, TreeEntry: object.TreeEntry{Name: name, Hash: c2.h}}})
				modNames = append(modNames, name)
				desc = append(desc, chg{"mod", name, hnum(c.h), len(c.data), hnum(c2.h)})
			}
		}
		fail := func(what string) {
			c, _ := json.Marshal(map[string]interface{}{"threshold": ra.SimilarityThreshold, "timeout_ns": int64(ra.Timeout), "changes": desc})
			hv.Fail("re-pairing", string(c), what)
		}
		if small {
			fmt.Fprintf(wo, "scan %s %s\n", join(addH), join(delH))
		}
		var res map[string]interface{}
		var err error
		panicked := ""
		func() {
			defer func() {
				if r := recover(); r != nil {
					panicked = fmt.Sprint(r)
				}
			}()
			res, err = ra.Consume(map[string]interface{}{items.DependencyTreeChanges: changes, items.DependencyBlobCache: cache})
		}()
		if panicked != "" || err != nil {
			if !small {
				fmt.Fprintln(wo, "nop")
			}
			fmt.Fprintln(wi, "error")
			fail("Consume failed: " + panicked + fmt.Sprint(err))
			continue
		}
		out := res[items.DependencyTreeChanges].(object.Changes)
		var gotDel, gotAdd, gotMod []string
		var mH, saH, sdH []string
		exact := map[plumbing.Hash]int{}
		for _, c := range out {
			a, _ := c.Action()
			switch a {
			case merkletrie.Insert:
				gotAdd = append(gotAdd, c.To.Name)
				saH = append(saH, hnum(c.To.TreeEntry.Hash))
			case merkletrie.Delete:
				gotDel = append(gotDel, c.From.Name)
				sdH = append(sdH, hnum(c.From.TreeEntry.Hash))
			case merkletrie.Modify:
				if c.From.Name == c.To.Name {
					gotMod = append(gotMod, c.From.Name)
				} else {
					stats["renames"]++
					gotDel = append(gotDel, c.From.Name)
					gotAdd = append(gotAdd, c.To.Name)
					if c.From.TreeEntry.Hash == c.To.TreeEntry.Hash {
						exact[c.From.TreeEntry.Hash]++
						mH = append(mH, hnum(c.From.TreeEntry.Hash))
					} else if small {
						fail("similarity rename among blobs below the minimum size")
					}
				}
			}
		}
		if small {
			fmt.Fprintf(wi, "m:%s a:%s d:%s\n", join(mH), join(saH), join(sdH))
		} else {
			// every reported rename is replayed by the model (legal pair? what is left?): ops rn2 <dels> <adds> <pairs>
			idx := map[string]int{}
			var ds, as []string
			for i, c := range desc {
				idx[c.Name] = i
				switch c.Kind {
				case "del":
					ds = append(ds, fmt.Sprintf("%d:%s", i, c.Hash))
				case "add":
					as = append(as, fmt.Sprintf("%d:%s", i, c.Hash))
				}
			}
			var ms []string
			var ld, la []int
			for _, c := range out {
				a, _ := c.Action()
				switch a {
				case merkletrie.Insert:
					la = append(la, idx[c.To.Name])
				case merkletrie.Delete:
					ld = append(ld, idx[c.From.Name])
				case merkletrie.Modify:
					if c.From.Name != c.To.Name {
						ms = append(ms, fmt.Sprintf("%d>%d", idx[c.From.Name], idx[c.To.Name]))
					}
				}
			}
			sort.Ints(ld)
			sort.Ints(la)
			j := func(x []string) string {
				if len(x) == 0 {
					return "-"
				}
				return strings.Join(x, ",")
			}
			ji := func(x []int) string {
				if len(x) == 0 {
					return "-"
				}
				s := make([]string, len(x))
				for i, v := range x {
					s[i] = fmt.Sprint(v)
				}
				return strings.Join(s, ",")
			}
			fmt.Fprintf(wo, "rn2 %s %s %s\n", j(ds), j(as), j(ms))
			fmt.Fprintf(wi, "ok d:%s a:%s\n", ji(ld), ji(la))
		}
		bad := false
		for _, p := range [][2][]string{{delNames, gotDel}, {addNames, gotAdd}, {modNames, gotMod}} {
			a, b := append([]string{}, p[0]...), append([]string{}, p[1]...)
			sort.Strings(a)
			sort.Strings(b)
			if fmt.Sprint(a) != fmt.Sprint(b) {
				fail(fmt.Sprintf("not a re-pairing: %v vs %v", a, b))
				bad = true
				break
			}
		}
		if bad {
			continue
		}
		for h, d := range delCount {
			m := d
			if addCount[h] < m {
				m = addCount[h]
			}
			if m > 0 {
				stats["shared-hashes"]++
			}
			if exact[h] < m {
				fail(fmt.Sprintf("exact renames for hash %s: %d < min(%d,%d)", hnum(h), exact[h], d, addCount[h]))
				break
			}
		}
	}
	hv.Stats(stats)
}
