package main

import (
	"bytes"
	"fmt"
	"io/ioutil"
	"log"
	"math/rand"
	"sort"
	"strings"
	"time"

	"gopkg.in/src-d/go-git.v4"
	"gopkg.in/src-d/go-git.v4/plumbing"
	"gopkg.in/src-d/go-git.v4/plumbing/filemode"
	"gopkg.in/src-d/go-git.v4/plumbing/object"
	"gopkg.in/src-d/go-git.v4/storage/memory"
	"gopkg.in/src-d/hercules.v10/internal/core"
	"gopkg.in/src-d/hercules.v10/leaves"
	"gopkg.in/src-d/hercules.v10/verifharness/hv"
)

func put(st *memory.Storage, t plumbing.ObjectType, enc func(o plumbing.EncodedObject) error) plumbing.Hash {
	o := st.NewEncodedObject()
	o.SetType(t)
	if err := enc(o); err != nil {
		panic(err)
	}
	hh, _ := st.SetEncodedObject(o)
	return hh
}

func countLines(b []byte) int {
	if len(b) == 0 {
		return 0
	}
	if bytes.IndexByte(b, 0) >= 0 {
		return -1
	}
	n := bytes.Count(b, []byte{'\n'})
	if b[len(b)-1] != '\n' {
		n++
	}
	return n
}

// class "no-text-line-ever": no commit of the history contains a text line (known finding C01-empty-history)
var noTextEver bool

func runOne(seed int64, n int, sampling, granularity int) (msg string) {
	noTextEver = false
	defer func() {
		if r := recover(); r != nil {
			msg = fmt.Sprintf("PANIC: %v", r)
		}
	}()
	rng := rand.New(rand.NewSource(seed))
	st := memory.NewStorage()
	repo, _ := git.Init(st, nil)
	files := map[string][]string{}
	binary := map[string]bool{}
	pool := []string{"a", "b", "c", "d", "e", "", "  x", "foo bar"}
	base := time.Date(2020, 1, 1, 0, 0, 0, 0, time.UTC)
	var commits []*object.Commit
	var prev plumbing.Hash
	var desc []string
	everText := false
	for c := 0; c < n; c++ {
		// edit
		nops := 1 + rng.Intn(3)
		for k := 0; k < nops; k++ {
			names := []string{"x.txt", "y.txt", "z/w.txt"}
			name := names[rng.Intn(len(names))]
			switch r := rng.Intn(10); {
			case r < 6: // edit lines
				ls := files[name]
				pos := rng.Intn(len(ls) + 1)
				del := 0
				if len(ls)-pos > 0 && rng.Intn(2) == 0 {
					del = 1 + rng.Intn(len(ls)-pos)
				}
				ins := rng.Intn(4)
				var nl []string
				nl = append(nl, ls[:pos]...)
				for i := 0; i < ins; i++ {
					nl = append(nl, pool[rng.Intn(len(pool))])
				}
				nl = append(nl, ls[pos+del:]...)
				files[name] = nl
				if _, ok := files[name]; !ok {
					files[name] = nl
				}
			case r < 7: // delete file
				delete(files, name)
				delete(binary, name)
			case r < 8: // flip binary
				if _, ok := files[name]; ok {
					binary[name] = !binary[name]
				}
			case r < 9: // rename
				other := names[rng.Intn(len(names))]
				if _, ok := files[name]; ok && other != name {
					if _, ok2 := files[other]; !ok2 {
						files[other] = files[name]
						binary[other] = binary[name]
						delete(files, name)
						delete(binary, name)
					}
				}
			}
		}
		var entries []object.TreeEntry
		sub := []object.TreeEntry{}
		total := 0
		var fnames []string
		for k := range files {
			fnames = append(fnames, k)
		}
		sort.Strings(fnames)
		for _, name := range fnames {
			data := []byte(strings.Join(files[name], "\n"))
			if len(files[name]) > 0 && rng.Intn(3) > 0 {
				data = append(data, '\n')
			}
			if binary[name] {
				data = append([]byte{0}, data...)
			}
			if cl := countLines(data); cl > 0 {
				everText = true
			}
			_ = total
			bh := put(st, plumbing.BlobObject, func(o plumbing.EncodedObject) error {
				w, _ := o.Writer()
				w.Write(data)
				return w.Close()
			})
			if strings.HasPrefix(name, "z/") {
				sub = append(sub, object.TreeEntry{Name: name[2:], Mode: filemode.Regular, Hash: bh})
			} else {
				entries = append(entries, object.TreeEntry{Name: name, Mode: filemode.Regular, Hash: bh})
			}
		}
		if len(sub) > 0 {
			sh := put(st, plumbing.TreeObject, (&object.Tree{Entries: sub}).Encode)
			entries = append(entries, object.TreeEntry{Name: "z", Mode: filemode.Dir, Hash: sh})
		}
		th := put(st, plumbing.TreeObject, (&object.Tree{Entries: entries}).Encode)
		when := base.Add(time.Duration(c*(3+rng.Intn(30))) * time.Hour)
		if c > 0 && when.Before(commits[c-1].Committer.When) {
			when = commits[c-1].Committer.When
		}
		a := rng.Intn(3)
		sig := object.Signature{Name: fmt.Sprintf("dev%d", a), Email: fmt.Sprintf("dev%d@x", a), When: when}
		cm := &object.Commit{Author: sig, Committer: sig, Message: fmt.Sprintf("c%d", c), TreeHash: th}
		if c > 0 {
			cm.ParentHashes = []plumbing.Hash{prev}
		}
		prev = put(st, plumbing.CommitObject, cm.Encode)
		co, err := repo.CommitObject(prev)
		if err != nil {
			panic(err)
		}
		commits = append(commits, co)
		desc = append(desc, fmt.Sprint(files, binary))
	}
	noTextEver = !everText
	// expected total lines at HEAD from the stored blobs
	headTree, _ := commits[len(commits)-1].Tree()
	wantTotal := 0
	wantPerFile := map[string]int{}
	headTree.Files().ForEach(func(f *object.File) error {
		s, _ := f.Contents()
		cl := countLines([]byte(s))
		if cl > 0 {
			wantTotal += cl
			wantPerFile[f.Name] = cl
		}
		return nil
	})
	pipeline := core.NewPipeline(repo)
	item := pipeline.DeployItem(&leaves.BurndownAnalysis{}).(*leaves.BurndownAnalysis)
	facts := map[string]interface{}{
		core.ConfigPipelineCommits:       commits,
		leaves.ConfigBurndownGranularity: granularity,
		leaves.ConfigBurndownSampling:    sampling,
		leaves.ConfigBurndownTrackFiles:  true,
		leaves.ConfigBurndownTrackPeople: true,
	}
	if err := pipeline.Initialize(facts); err != nil {
		return "INIT: " + err.Error()
	}
	res, err := pipeline.Run(commits)
	if err != nil {
		return "RUN: " + err.Error()
	}
	br := res[item].(leaves.BurndownResult)
	gh := br.GlobalHistory
	for _, row := range gh {
		for _, v := range row {
			if v < 0 {
				return fmt.Sprintf("NEGATIVE cell %v", gh)
			}
		}
	}
	sum := int64(0)
	for _, v := range gh[len(gh)-1] {
		sum += v
	}
	if int(sum) != wantTotal {
		return fmt.Sprintf("LASTROW sum %d want %d", sum, wantTotal)
	}
	for name, fh := range br.FileHistories {
		s := int64(0)
		for _, v := range fh[len(fh)-1] {
			s += v
			if v < 0 {
				return "NEGATIVE file cell"
			}
		}
		if int(s) != wantPerFile[name] {
			return fmt.Sprintf("FILE %s lastrow %d want %d", name, s, wantPerFile[name])
		}
	}
	return ""
}

func main() {
	log.SetOutput(ioutil.Discard)
	hv.RunOracle(func(cs int64, extra []string) (string, string, string, []string) {
		rng := rand.New(rand.NewSource(cs ^ 0x11ea))
		n := 3 + rng.Intn(12)
		g := 1 + rng.Intn(4)
		s := 1 + rng.Intn(g)
		m := runOne(cs, n, s, g)
		desc := fmt.Sprintf(`{"seed":%d,"commits":%d,"sampling":%d,"granularity":%d}`, cs, n, s, g)
		class := "linear-history"
		if noTextEver && strings.Contains(m, "empty history") {
			class = "no-text-line-ever"
		}
		return desc, class, m, nil
	})
}
