package main

import (
	"fmt"
	"gopkg.in/src-d/hercules.v10/verifharness/hv"
	"math/rand"
	"sort"
	"strings"

	"gopkg.in/src-d/hercules.v10/internal/rbtree"
)

func dump(st []rbtree.VerifNode, n uint32) string {
	if n == 0 {
		return "."
	}
	c := "R"
	if st[n].Black {
		c = "B"
	}
	return fmt.Sprintf("(%d^%d %d %d %s %s %s)", n, st[n].Parent, st[n].Key, st[n].Value, c, dump(st, st[n].Left), dump(st, st[n].Right))
}

func main() {
	hvSeed, hvCount, wo, wi, _, hvDone := hv.Args()
	defer hvDone()
	rng := rand.New(rand.NewSource(hvSeed))
	for it := 0; it < hvCount; it++ {
		alloc := rbtree.NewAllocator()
		t := rbtree.NewRBTree(alloc)
		fmt.Fprintln(wo, "new")
		fmt.Fprintln(wi, "ok")
		// Go-side statement of C05 (oracle): a reference map, and one held iterator per live element
		ref := map[uint32]uint32{}
		held := map[uint32]rbtree.Iterator{}
		invReported := false
		var opsLog []string
		caseJSON := func() string {
			return fmt.Sprintf(`{"ops":%q}`, strings.Join(opsLog, "; "))
		}
		keyRange := 4 + rng.Intn(60)
		// keys: small integers, or (every third tree) an increasing table spread over the whole uint32 range with the
		// boundaries 0, 2^31-1, 2^31 and 2^32-1, so that differences of keys exceed 31 bits
		keys := make([]uint32, keyRange+2)
		for i := range keys {
			keys[i] = uint32(i)
		}
		if rng.Intn(3) == 0 {
			set := map[uint32]bool{0: true, 1<<31 - 1: true, 1 << 31: true, 1<<32 - 1: true}
			for len(set) < len(keys) {
				if rng.Intn(3) == 0 {
					set[uint32(rng.Intn(50))] = true
				} else {
					set[rng.Uint32()] = true
				}
			}
			var ks []uint32
			for k := range set {
				ks = append(ks, k)
			}
			sort.Slice(ks, func(i, j int) bool { return ks[i] < ks[j] })
			copy(keys, ks[:len(keys)])
		}
		n := 5 + rng.Intn(120)
		for i := 0; i < n; i++ {
			k := keys[rng.Intn(keyRange)]
			var flag bool
			if rng.Intn(5) < 3 {
				v := uint32(rng.Intn(1000))
				ok, iter := t.Insert(rbtree.Item{Key: k, Value: v})
				id := uint32(0)
				if ok {
					id = iter.VerifNodeOf()
				}
				fmt.Fprintf(wo, "ins %d %d %d\n", k, v, id)
				flag = ok
				opsLog = append(opsLog, fmt.Sprintf("ins %d=%d", k, v))
				if _, had := ref[k]; had == ok {
					hv.Fail("ordered-map", caseJSON(), fmt.Sprintf("Insert of key %d reports %v, the key was present: %v", k, ok, had))
				}
				if ok {
					ref[k] = v
					held[k] = iter
				}
			} else {
				if rng.Intn(2) == 0 {
					flag = t.DeleteWithKey(k)
				} else if it := t.FindGE(k); !it.Limit() && it.Item().Key == k {
					t.DeleteWithIterator(it)
					flag = true
				} else {
					flag = false
				}
				fmt.Fprintf(wo, "del %d\n", k)
				opsLog = append(opsLog, fmt.Sprintf("del %d", k))
				if _, had := ref[k]; had != flag {
					hv.Fail("ordered-map", caseJSON(), fmt.Sprintf("deleting key %d reports %v, the key was present: %v", k, flag, had))
				}
				delete(ref, k)
				delete(held, k)
			}
			st, _ := alloc.VerifSnapshot()
			root, mn, mx, cnt := t.VerifHeader()
			if _, _, err := t.VerifCheck(); err != nil && !invReported {
				invReported = true
				hv.Fail("rb-invariant", caseJSON(), "the tree breaks an invariant (search order, parent links, black root, no red-red, equal black height, count/min/max): "+err.Error())
			}
			fmt.Fprintf(wi, "%v %s min=%d max=%d n=%d\n", flag, dump(st, root), mn, mx, cnt)
			// iterator stability: every iterator obtained at insertion still denotes its element
			for hk, hit := range held {
				bad := ""
				func() {
					defer func() {
						if r := recover(); r != nil {
							bad = fmt.Sprint(r)
						}
					}()
					if hit.Limit() || hit.NegativeLimit() || hit.Item().Key != hk || hit.Item().Value != ref[hk] {
						bad = "it denotes another element or none"
					}
				}()
				if bad != "" {
					hv.Fail("iterator-stability", caseJSON(), fmt.Sprintf("the iterator obtained when key %d was inserted is no longer valid: %s", hk, bad))
					delete(held, hk)
				}
			}
			var sorted []uint32
			for rk := range ref {
				sorted = append(sorted, rk)
			}
			sort.Slice(sorted, func(i, j int) bool { return sorted[i] < sorted[j] })
			// lookups
			for q := 0; q < 2; q++ {
				qk := keys[rng.Intn(keyRange+2)]
				sh := func(it rbtree.Iterator) string {
					if it.Limit() || it.NegativeLimit() {
						return "-"
					}
					return fmt.Sprintf("%d/%d/%d", it.VerifNodeOf(), it.Item().Key, it.Item().Value)
				}
				ge, le := t.FindGE(qk), t.FindLE(qk)
				g := "-"
				if v := t.Get(qk); v != nil {
					g = fmt.Sprint(*v)
				}
				// Next/Prev from the entry with key qk when it exists, else the model's definition via GE/LE
				nx, pv := "-", "-"
				if !ge.Limit() && ge.Item().Key == qk {
					nx = sh(ge.Next())
					pv = sh(ge.Prev())
				} else {
					if qk < 1<<32-1 { // no key is greater than the largest uint32 (qk+1 would wrap in the probe itself)
						nx = sh(t.FindGE(qk + 1))
					}
					if qk > 0 {
						pv = sh(t.FindLE(qk - 1))
					}
				}
				wantGE, wantLE := "-", "-"
				for _, sk := range sorted {
					if sk >= qk && wantGE == "-" {
						wantGE = fmt.Sprintf("%d/%d", sk, ref[sk])
					}
					if sk <= qk {
						wantLE = fmt.Sprintf("%d/%d", sk, ref[sk])
					}
				}
				kv := func(it rbtree.Iterator) string {
					if it.Limit() || it.NegativeLimit() {
						return "-"
					}
					return fmt.Sprintf("%d/%d", it.Item().Key, it.Item().Value)
				}
				if kv(ge) != wantGE || kv(le) != wantLE {
					hv.Fail("ordered-map", caseJSON(), fmt.Sprintf("key %d: FindGE=%s FindLE=%s, the map says %s and %s", qk, kv(ge), kv(le), wantGE, wantLE))
				}
				if rv, has := ref[qk]; has != (g != "-") || (has && g != fmt.Sprint(rv)) {
					hv.Fail("ordered-map", caseJSON(), fmt.Sprintf("Get(%d)=%s, the map has %v/%d", qk, g, has, rv))
				}
				fmt.Fprintf(wo, "q %d\n", qk)
				fmt.Fprintf(wi, "ge=%s le=%s get=%s next=%s prev=%s\n", sh(ge), sh(le), g, nx, pv)
			}
		}
	}
}
