// k03: File.Update against the Lean model `fu` (ops: new t len / upd t pos ins del) and, Go-side, against the
// plain-array statement of property C03 (oracle): per-line values, length, running histogram, guard panics.
package main

import (
	"encoding/json"
	"fmt"
	"math/rand"
	"strings"

	"gopkg.in/src-d/hercules.v10/internal/burndown"
	"gopkg.in/src-d/hercules.v10/internal/rbtree"
	"gopkg.in/src-d/hercules.v10/verifharness/hv"
)

func dump(f *burndown.File) string {
	var sb []string
	f.ForEach(func(line, value int) {
		if value == -1 {
			sb = append(sb, fmt.Sprintf("%d:E", line))
		} else {
			sb = append(sb, fmt.Sprintf("%d:%d", line, value))
		}
	})
	return strings.Join(sb, " ")
}

func flatten(f *burndown.File) []int {
	var res []int
	prevLine, prevVal := -1, 0
	f.ForEach(func(line, value int) {
		if prevLine >= 0 {
			for i := prevLine; i < line; i++ {
				res = append(res, prevVal)
			}
		}
		prevLine, prevVal = line, value
	})
	return res
}

type op struct{ T, Pos, Ins, Del int }

func main() {
	hvSeed, hvCount, wo, wi, extra, hvDone := hv.Args()
	defer hvDone()
	rng := rand.New(rand.NewSource(hvSeed))
	maxLen, maxOps := 7, 8
	if len(extra) > 0 && extra[0] == "wide" {
		maxLen, maxOps = 30, 25
	}
	stats := map[string]int{}
	for it := 0; it < hvCount; it++ {
		initLen := rng.Intn(maxLen)
		alloc := rbtree.NewAllocator()
		var em []string
		hist := map[int]int{}
		f := burndown.NewFile(0, initLen, alloc, func(cur, prev, delta int) {
			em = append(em, fmt.Sprintf("(%d,%d,%d)", cur, prev, delta))
			hist[prev] += delta
		})
		fmt.Fprintf(wo, "new 0 %d\n", initLen)
		fmt.Fprintf(wi, "ok %s\n", dump(f))
		arr := make([]int, initLen)
		var done []op
		failc := func(class, what string) {
			c, _ := json.Marshal(map[string]interface{}{"init_len": initLen, "ops": done})
			hv.Fail(class, string(c), what)
		}
		fail := func(what string) { failc("array-model", what) }
		l := initLen
		tick := 0
		const mark = burndown.TreeMergeMark
		isMark := func(v int) bool { return v&mark == mark }
		// value mode of the case: 0 plain ticks, 1 packed authors, 2 plain + merge marks, 3 packed + merge marks
		mode := rng.Intn(4)
		if it%2 == 0 {
			mode = 0
		}
		want := map[int]int{} // the histogram the reports must add up to (property C03)
		if initLen > 0 {
			want[0] = initLen
		}
		n := 1 + rng.Intn(maxOps)
		for i := 0; i < n; i++ {
			if rng.Intn(2) == 0 {
				tick += rng.Intn(2)
			}
			t := tick
			if mode >= 2 && rng.Intn(4) == 0 {
				t = mark
				stats["mark-ops"]++
			}
			if mode == 1 || mode == 3 {
				// small developer indexes, and the large ones real runs use: 2^17 and its neighbour (bit 31 of the packed
				// value), the own-repository author (262141) and the unmatched author (262142)
				t |= []int{0, 1, 2, 0, 1, 2, 131071, 131072, 262141, 262142}[rng.Intn(10)] << burndown.TreeMaxBinPower
			}
			if rng.Intn(60) == 0 {
				// a negative argument must be refused with a panic before anything is changed (no op line: the later
				// operations of the case show that the state is untouched)
				args := [4]int{t, rng.Intn(l + 1), rng.Intn(3), 0}
				which := rng.Intn(4)
				args[which] = -1 - rng.Intn(3)
				refused := false
				func() {
					defer func() {
						if recover() != nil {
							refused = true
						}
					}()
					f.Update(args[0], args[1], args[2], args[3])
				}()
				stats["negative-argument-requests"]++
				if !refused {
					failc("negative-argument", fmt.Sprintf("Update(%d, %d, %d, %d) was accepted", args[0], args[1], args[2], args[3]))
				}
			}
			pos := rng.Intn(l + 1)
			del := 0
			if rng.Intn(2) == 0 && l-pos > 0 {
				del = 1 + rng.Intn(l-pos)
			}
			ins := 0
			if rng.Intn(2) == 0 || del == 0 {
				ins = 1 + rng.Intn(3)
			}
			malformed := false
			if rng.Intn(40) == 0 { // malformed
				pos = l + 1 + rng.Intn(3)
				malformed = true
			}
			if rng.Intn(40) == 0 {
				del = l - pos + 1 + rng.Intn(3)
				if del < 0 {
					del = 1
				}
				malformed = true
			}
			em = nil
			fmt.Fprintf(wo, "upd %d %d %d %d\n", t, pos, ins, del)
			done = append(done, op{t, pos, ins, del})
			panicked := false
			func() {
				defer func() {
					if r := recover(); r != nil {
						panicked = true
					}
				}()
				f.Update(t, pos, ins, del)
			}()
			markClash := false
			if !malformed {
				for _, v := range arr[pos : pos+del] {
					if isMark(v) && v != t {
						markClash = true // updateTime refuses a report whose previous value is a merge mark
					}
				}
			}
			if markClash {
				stats["mark-clash"]++
				if !panicked {
					fail("deleting merge-marked lines with another stamp was accepted")
				}
			} else if malformed != panicked {
				if malformed && ins == 0 && del == 0 {
					// decidable class of the known finding C03-noop-beyond-end
					failc("noop-beyond-end", "Update(t, pos>len, 0, 0) returns without a panic (state unchanged)")
				} else if malformed {
					fail("out-of-range request accepted")
				} else {
					fail("valid request rejected")
				}
			}
			if panicked {
				stats["rejected"]++
				fmt.Fprintf(wi, "panic\n")
				break // state may be corrupted after a mid-update panic
			}
			fmt.Fprintf(wi, "ok %s | %s\n", dump(f), strings.Join(em, " "))
			// the array statement of the property
			if (ins != 0 || del != 0) && !isMark(t) {
				for _, v := range arr[pos : pos+del] {
					want[v]--
					if want[v] == 0 {
						delete(want, v)
					}
				}
				if ins > 0 {
					want[t] += ins
				}
			}
			if ins != 0 || del != 0 {
				na := append([]int{}, arr[:pos]...)
				for k := 0; k < ins; k++ {
					na = append(na, t)
				}
				na = append(na, arr[pos+del:]...)
				arr = na
			}
			l += ins - del
			stats["updates"]++
			got := flatten(f)
			if f.Len() != len(arr) || fmt.Sprint(got) != fmt.Sprint(arr) {
				fail(fmt.Sprintf("lines %v, array says %v", got, arr))
				break
			}
			// hist started without the initial lines: NewFile reports them through the updater as well
			bad := false
			for k, v := range want {
				if hist[k] != v {
					bad = true
				}
			}
			for k, v := range hist {
				if v != want[k] {
					bad = true
				}
			}
			if bad {
				fail(fmt.Sprintf("reported histogram %v, expected %v", hist, want))
				break
			}
		}
	}
	hv.Stats(stats)
}
