package main

import (
	"fmt"
	"gopkg.in/src-d/hercules.v10/verifharness/hv"
	"math/rand"
	"strings"

	"gopkg.in/src-d/hercules.v10/internal/burndown"
	"gopkg.in/src-d/hercules.v10/internal/rbtree"
)

func dump(f *burndown.File) string {
	var sb []string
	f.ForEach(func(line, value int) {
		if value == -1 {
			sb = append(sb, fmt.Sprintf("%d:E", line))
		} else {
			sb = append(sb, fmt.Sprintf("%d:%d", line, value))
		}
	})
	return strings.Join(sb, " ")
}

func main() {
	hvSeed, hvCount, wo, wi, _, hvDone := hv.Args()
	defer hvDone()
	rng := rand.New(rand.NewSource(hvSeed))
	for it := 0; it < hvCount; it++ {
		initLen := rng.Intn(7)
		alloc := rbtree.NewAllocator()
		var em []string
		f := burndown.NewFile(0, initLen, alloc, func(cur, prev, delta int) {
			em = append(em, fmt.Sprintf("(%d,%d,%d)", cur, prev, delta))
		})
		fmt.Fprintf(wo, "new 0 %d\n", initLen)
		fmt.Fprintf(wi, "ok %s\n", dump(f))
		l := initLen
		t := 0
		n := 1 + rng.Intn(8)
		for i := 0; i < n; i++ {
			if rng.Intn(2) == 0 {
				t += rng.Intn(2)
			}
			pos := rng.Intn(l + 1)
			del := 0
			if rng.Intn(2) == 0 && l-pos > 0 {
				del = 1 + rng.Intn(l-pos)
			}
			ins := 0
			if rng.Intn(2) == 0 || del == 0 {
				ins = 1 + rng.Intn(3)
			}
			if rng.Intn(40) == 0 { // malformed
				pos = l + 1 + rng.Intn(3)
			}
			if rng.Intn(40) == 0 {
				del = l - pos + 1 + rng.Intn(3)
				if del < 0 {
					del = 1
				}
			}
			em = nil
			fmt.Fprintf(wo, "upd %d %d %d %d\n", t, pos, ins, del)
			panicked := false
			func() {
				defer func() {
					if r := recover(); r != nil {
						panicked = true
					}
				}()
				f.Update(t, pos, ins, del)
			}()
			if panicked {
				fmt.Fprintf(wi, "panic\n")
				break // state may be corrupted after a mid-update panic
			}
			fmt.Fprintf(wi, "ok %s | %s\n", dump(f), strings.Join(em, " "))
			l += ins - del
		}
	}
}
