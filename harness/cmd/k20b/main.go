package main

import (
	"bufio"
	"fmt"
	"math/rand"
	"os"
	"regexp"
	"sort"
	"strconv"
	"strings"
	"time"

	"github.com/src-d/enry/v2"
	"gopkg.in/src-d/go-git.v4"
	"gopkg.in/src-d/go-git.v4/plumbing"
	"gopkg.in/src-d/go-git.v4/plumbing/filemode"
	"gopkg.in/src-d/go-git.v4/plumbing/object"
	"gopkg.in/src-d/go-git.v4/storage/memory"
	"gopkg.in/src-d/hercules.v10/internal/core"
	items "gopkg.in/src-d/hercules.v10/internal/plumbing"
)

type fent struct {
	data []byte
	mode filemode.FileMode
	sub  bool
}

func put(st *memory.Storage, t plumbing.ObjectType, enc func(o plumbing.EncodedObject) error) plumbing.Hash {
	o := st.NewEncodedObject()
	o.SetType(t)
	enc(o)
	hh, _ := st.SetEncodedObject(o)
	return hh
}

var contentOf = map[plumbing.Hash]string{}

func buildTree(st *memory.Storage, files map[string]fent, prefix string, out map[string]object.TreeEntry) plumbing.Hash {
	names := map[string]bool{}
	for p := range files {
		if strings.HasPrefix(p, prefix) {
			rest := p[len(prefix):]
			names[strings.SplitN(rest, "/", 2)[0]] = true
		}
	}
	var ns []string
	for n := range names {
		ns = append(ns, n)
	}
	isDir := func(n string) bool { _, ok := files[prefix+n]; return !ok }
	sort.Slice(ns, func(i, j int) bool {
		a, b := ns[i], ns[j]
		if isDir(a) {
			a += "/"
		}
		if isDir(b) {
			b += "/"
		}
		return a < b
	})
	var entries []object.TreeEntry
	for _, n := range ns {
		if f, ok := files[prefix+n]; ok {
			var e object.TreeEntry
			if f.sub {
				var h plumbing.Hash
				copy(h[:], f.data)
				e = object.TreeEntry{Name: n, Mode: filemode.Submodule, Hash: h}
			} else {
				bh := put(st, plumbing.BlobObject, func(o plumbing.EncodedObject) error {
					w, _ := o.Writer()
					w.Write(f.data)
					return w.Close()
				})
				contentOf[bh] = string(f.data)
				e = object.TreeEntry{Name: n, Mode: f.mode, Hash: bh}
			}
			entries = append(entries, e)
			out[prefix+n] = e
		} else {
			entries = append(entries, object.TreeEntry{Name: n, Mode: filemode.Dir, Hash: buildTree(st, files, prefix+n+"/", out)})
		}
	}
	return put(st, plumbing.TreeObject, (&object.Tree{Entries: entries}).Encode)
}

func main() {
	seed, _ := strconv.ParseInt(os.Args[1], 10, 64)
	count, _ := strconv.Atoi(os.Args[2])
	// extra argument "bc": the ops/impl files receive the blob-cache stream, otherwise the tree-diff stream
	tdo, tdi, bco, bci := os.Args[3], os.Args[4], os.DevNull, os.DevNull
	if len(os.Args) > 5 && os.Args[5] == "bc" {
		tdo, tdi, bco, bci = os.DevNull, os.DevNull, os.Args[3], os.Args[4]
	}
	ops, _ := os.Create(tdo)
	impl, _ := os.Create(tdi)
	wo, wi := bufio.NewWriter(ops), bufio.NewWriter(impl)
	defer wo.Flush()
	defer wi.Flush()
	bops, _ := os.Create(bco)
	bimpl, _ := os.Create(bci)
	bo, bi := bufio.NewWriter(bops), bufio.NewWriter(bimpl)
	defer bo.Flush()
	defer bi.Flush()
	nberr, nzero := 0, 0
	paths := []string{"a.go", "b.py", "vendor/x.go", "dir/c.go", "dir/sub/d.txt", "dir/e.h", "f.h", "sm", "dir/sm2", "g.txt", "dir", "a.go/z.go", "node_modules/q.js"}
	contents := []string{"package main\n", "import os\n", "#include <stdio.h>\n", "class A {};\n", "hello\n", "x\ny\n", ""}
	regexes := []string{`\.(go|h)$`, `^$`, `^dir/`, `x*`}
	nerr, nch := 0, 0
	for it := 0; it < count; it++ {
		rng := rand.New(rand.NewSource(seed + int64(it)))
		st := memory.NewStorage()
		repo, _ := git.Init(st, nil)
		td := &items.TreeDiff{}
		skip := "-"
		rxs, rxe := "0", "0"
		switch rng.Intn(4) {
		case 1:
			td.SkipFiles = []string{"vendor/", "dir/sub"}
			skip = "vendor/,dir/sub"
		case 2:
			td.NameFilter = regexp.MustCompile(regexes[rng.Intn(len(regexes))])
			rxs = "1"
			if td.NameFilter.MatchString("") {
				rxe = "1"
			}
		case 3:
			td.SkipFiles = []string{"dir/"}
			skip = "dir/"
			td.NameFilter = regexp.MustCompile(regexes[rng.Intn(len(regexes))])
			rxs = "1"
			if td.NameFilter.MatchString("") {
				rxe = "1"
			}
		}
		td.Initialize(repo)
		bc := &items.BlobCache{}
		bc.Initialize(repo)
		fmt.Fprintln(bo, "new")
		fmt.Fprintln(bi, "ok")
		removed := map[plumbing.Hash]bool{}
		// the stored object declares a size other than that of its content (storing the same content again repairs it)
		unreadable := func(h plumbing.Hash) bool {
			o, ok := st.Blobs[h]
			want, known := contentOf[h]
			return ok && known && o.Size() != int64(len(want))
		}
		fmt.Fprintf(wo, "cfg %s %s %s\n", skip, rxs, rxe)
		hid := map[plumbing.Hash]int{}
		files := map[string]fent{}
		base := time.Date(2020, 1, 1, 0, 0, 0, 0, time.UTC)
		var hashes []plumbing.Hash
		for c := 0; c < 7; c++ {
			for k := 0; k < 1+rng.Intn(4); k++ {
				p := paths[rng.Intn(len(paths))]
				// keep the set a valid tree: a path cannot be both file and directory
				conflict := false
				for q := range files {
					if strings.HasPrefix(q, p+"/") || strings.HasPrefix(p, q+"/") {
						conflict = true
					}
				}
				switch rng.Intn(6) {
				case 0:
					delete(files, p)
				case 1:
					if f, ok := files[p]; ok && !f.sub {
						if f.mode == filemode.Regular {
							f.mode = filemode.Executable
						} else {
							f.mode = filemode.Regular
						}
						files[p] = f
					}
				default:
					if conflict {
						for q := range files {
							if strings.HasPrefix(q, p+"/") || strings.HasPrefix(p, q+"/") {
								delete(files, q)
							}
						}
					}
					if strings.HasPrefix(p, "sm") || strings.HasSuffix(p, "sm2") {
						h := make([]byte, 20)
						rng.Read(h)
						files[p] = fent{data: h, sub: true}
					} else {
						files[p] = fent{data: []byte(contents[rng.Intn(len(contents))]), mode: filemode.Regular}
					}
				}
			}
			entries := map[string]object.TreeEntry{}
			th := buildTree(st, files, "", entries)
			sig := object.Signature{Name: "a", Email: "a@x", When: base.Add(time.Duration(c) * time.Hour)}
			cm := &object.Commit{Author: sig, Committer: sig, Message: fmt.Sprint(c), TreeHash: th}
			var ps []string
			if c > 0 {
				cm.ParentHashes = []plumbing.Hash{hashes[c-1]}
				ps = append(ps, strconv.Itoa(c-1))
				if c > 1 && rng.Intn(4) == 0 {
					o := rng.Intn(c - 1)
					cm.ParentHashes = append(cm.ParentHashes, hashes[o])
					ps = append(ps, strconv.Itoa(o))
				}
			}
			hashes = append(hashes, put(st, plumbing.CommitObject, cm.Encode))
			if c > 0 && c < 6 && rng.Intn(20) == 0 {
				continue // not fed: the next commit will have the wrong parent
			}
			commit, _ := repo.CommitObject(hashes[c])
			var fl []string
			var names []string
			for p := range entries {
				names = append(names, p)
			}
			sort.Strings(names)
			id := func(h plumbing.Hash) int {
				if _, ok := hid[h]; !ok {
					hid[h] = len(hid) + 1
				}
				return hid[h]
			}
			for _, p := range names {
				e := entries[p]
				f := ""
				if e.Mode == filemode.Submodule {
					f += "s"
				}
				if enry.IsVendor(p) {
					f += "v"
				}
				if td.NameFilter != nil && td.NameFilter.MatchString(p) {
					f += "r"
				}
				fl = append(fl, fmt.Sprintf("%s=%d.%d.%s", p, id(e.Hash), uint32(e.Mode), f))
			}
			fs := strings.Join(fl, ";")
			if fs == "" {
				fs = "-"
			}
			pj := strings.Join(ps, ",")
			if pj == "" {
				pj = "-"
			}
			fmt.Fprintf(wo, "commit %d %s %s\n", c, pj, fs)
			deps := map[string]interface{}{core.DependencyCommit: commit, core.DependencyIndex: c, core.DependencyIsMerge: false}
			r1, err := td.Consume(deps)
			if err != nil {
				nerr++
				fmt.Fprintln(wi, "err wrong-parent")
				continue
			}
			changes := r1[items.DependencyTreeChanges].(object.Changes)
			var out []string
			side := func(e object.ChangeEntry) string {
				if e.Name == "" {
					return "-"
				}
				return fmt.Sprintf("%d.%d", id(e.TreeEntry.Hash), uint32(e.TreeEntry.Mode))
			}
			for _, ch := range changes {
				name := ch.To.Name
				if name == "" {
					name = ch.From.Name
				}
				out = append(out, fmt.Sprintf("%s:%s>%s", name, side(ch.From), side(ch.To)))
				nch++
			}
			sort.Strings(out)
			fmt.Fprintln(wi, strings.Join(out, " "))
			// BlobCache: sometimes drop referenced blobs from the object store first
			for _, ch := range changes {
				for _, e := range []object.ChangeEntry{ch.From, ch.To} {
					h := e.TreeEntry.Hash
					if e.Name != "" && e.TreeEntry.Mode != filemode.Submodule && !removed[h] && rng.Intn(12) == 0 {
						delete(st.Blobs, h)
						delete(st.Objects, h)
						removed[h] = true
					}
					// ... or leave them in place but unreadable: the declared size is one byte more than there is to read
					if e.Name != "" && e.TreeEntry.Mode != filemode.Submodule && !removed[h] && !unreadable(h) && rng.Intn(14) == 0 {
						if o, ok := st.Blobs[h]; ok {
							o.SetSize(o.Size() + 1)
						}
					}
				}
			}
			ent := func(e object.ChangeEntry) string {
				h := e.TreeEntry.Hash
				f := ""
				if e.TreeEntry.Mode == filemode.Submodule {
					f += "s"
				}
				if _, ok := st.Blobs[h]; !ok {
					f += "x"
				} else if unreadable(h) {
					f += "c"
				}
				return fmt.Sprintf("%d.%s", id(h), f)
			}
			var cl []string
			refs := map[plumbing.Hash]bool{}
			for _, ch := range changes {
				switch {
				case ch.From.Name == "":
					cl = append(cl, "A:"+ent(ch.To))
					refs[ch.To.TreeEntry.Hash] = true
				case ch.To.Name == "":
					cl = append(cl, "D:"+ent(ch.From))
					refs[ch.From.TreeEntry.Hash] = true
				default:
					f := ent(ch.From)
					cl = append(cl, "M:"+f+">"+ent(ch.To))
					refs[ch.From.TreeEntry.Hash] = true
					refs[ch.To.TreeEntry.Hash] = true
				}
			}
			fmt.Fprintf(bo, "bc %s\n", strings.Join(cl, " "))
			deps[items.DependencyTreeChanges] = changes
			r2, err := bc.Consume(deps)
			if err != nil {
				nberr++
				fmt.Fprintln(bi, "err")
				continue
			}
			cache := r2[items.DependencyBlobCache].(map[plumbing.Hash]*items.CachedBlob)
			var co []string
			var hs []plumbing.Hash
			for h := range cache {
				hs = append(hs, h)
			}
			sort.Slice(hs, func(i, j int) bool { return id(hs[i]) < id(hs[j]) })
			for _, h := range hs {
				cb := cache[h]
				status := "zero"
				if cb != nil && cb.Hash == h {
					status = "ok"
					if want, ok := contentOf[h]; ok && !removed[h] && string(cb.Data) != want {
						status = "WRONGBYTES"
					}
				} else {
					nzero++
				}
				co = append(co, fmt.Sprintf("%d:%s", id(h), status))
			}
			for h := range refs {
				if _, ok := cache[h]; !ok {
					co = append(co, fmt.Sprintf("%d:MISSING", id(h)))
				}
			}
			fmt.Fprintln(bi, strings.Join(co, " "))
		}
	}
	fmt.Fprintf(os.Stderr, "errors=%d changes=%d blobcache-errors=%d zero-slots=%d\n", nerr, nch, nberr, nzero)
}
