// k18m: CouplesAnalysis.MergeResults against the Lean model CmM.merge (C18), line protocol.
package main

import (
	"fmt"
	"math/rand"
	"sort"
	"strings"

	"gopkg.in/src-d/hercules.v10/internal/core"
	"gopkg.in/src-d/hercules.v10/leaves"
	"gopkg.in/src-d/hercules.v10/verifharness/hv"
)

type res struct {
	Files  []string
	Lines  []int
	FM     []map[int]int64
	PM     []map[int]int64
	PF     [][]int
	People []string
}

func gen(rng *rand.Rand, filePool, devPool []string, fromFinalize bool) res {
	var r res
	for _, f := range filePool {
		if rng.Intn(2) == 0 {
			r.Files = append(r.Files, f)
			r.Lines = append(r.Lines, rng.Intn(300))
		}
	}
	for _, d := range devPool {
		if rng.Intn(2) == 0 {
			r.People = append(r.People, d)
		}
	}
	rng.Shuffle(len(r.Files), func(i, j int) {
		r.Files[i], r.Files[j] = r.Files[j], r.Files[i]
		r.Lines[i], r.Lines[j] = r.Lines[j], r.Lines[i]
	})
	rng.Shuffle(len(r.People), func(i, j int) { r.People[i], r.People[j] = r.People[j], r.People[i] })
	nf, np := len(r.Files), len(r.People)
	r.FM = make([]map[int]int64, nf)
	for i := range r.FM {
		r.FM[i] = map[int]int64{}
		for j := 0; j < nf; j++ {
			if rng.Intn(3) == 0 {
				r.FM[i][j] = int64(rng.Intn(20))
			}
		}
	}
	r.PM = make([]map[int]int64, np+1)
	for i := range r.PM {
		r.PM[i] = map[int]int64{}
		for j := 0; j <= np; j++ {
			if rng.Intn(3) == 0 {
				r.PM[i][j] = int64(rng.Intn(20))
			}
		}
	}
	rows := np
	if fromFinalize {
		rows = np + 1
	}
	r.PF = make([][]int, rows)
	for i := range r.PF {
		r.PF[i] = []int{}
		for j := 0; j < nf; j++ {
			if rng.Intn(3) == 0 {
				r.PF[i] = append(r.PF[i], j)
			}
		}
	}
	return r
}

func dash(s string) string {
	if s == "" {
		return "-"
	}
	return s
}

func cells(m []map[int]int64) string {
	var out []string
	for i, row := range m {
		var ks []int
		for k := range row {
			ks = append(ks, k)
		}
		sort.Ints(ks)
		for _, k := range ks {
			out = append(out, fmt.Sprintf("%d:%d=%d", i, k, row[k]))
		}
	}
	return strings.Join(out, ",")
}

func rowsOps(pf [][]int) string {
	if len(pf) == 0 {
		return "-"
	}
	var out []string
	for _, r := range pf {
		if len(r) == 0 {
			out = append(out, "_")
			continue
		}
		var s []string
		for _, f := range r {
			s = append(s, fmt.Sprint(f))
		}
		out = append(out, strings.Join(s, "."))
	}
	return strings.Join(out, ";")
}

func rowsOut(pf [][]int) string {
	var out []string
	for _, r := range pf {
		var s []string
		for _, f := range r {
			s = append(s, fmt.Sprint(f))
		}
		out = append(out, strings.Join(s, "."))
	}
	return strings.Join(out, ";")
}

func ints(l []int) string {
	var s []string
	for _, x := range l {
		s = append(s, fmt.Sprint(x))
	}
	return strings.Join(s, ",")
}

func enc(r res) string {
	return strings.Join([]string{dash(strings.Join(r.Files, ",")), dash(ints(r.Lines)), dash(cells(r.FM)), dash(cells(r.PM)),
		rowsOps(r.PF), dash(strings.Join(r.People, ";"))}, " ")
}

func main() {
	seed, count, wo, wi, _, done := hv.Args()
	defer done()
	filePool := []string{"a.go", "b.go", "dir/c.py", "d.txt", "e.md", "f.rs", "docs|notes.md", "notes.md", "x|a.txt"} // file names are literal strings, also when they contain the separator of identities
	pools := [][]string{
		{"ann|ann@x", "bob|bob@x", "carl|carl@y", "dee|dee@x", "ann2|ann@x", "bob|bob@work"},
		{"ann|ann@x", "bob|bob@x", "carl|carl@y", "dee|dee@x", "eve|ann@x2", "fay|fay@z|fay@w"},
	}
	sizes := map[string]int{}
	for it := 0; it < count; it++ {
		rng := rand.New(rand.NewSource(seed*1000003 + int64(it)))
		devPool := pools[rng.Intn(2)]
		r1 := gen(rng, filePool, devPool, rng.Intn(2) == 0)
		r2 := gen(rng, filePool, devPool, rng.Intn(2) == 0)
		fmt.Fprintf(wo, "cm %s %s\n", enc(r1), enc(r2))
		ca := &leaves.CouplesAnalysis{}
		c1 := leaves.VerifNewCouplesResult(r1.PM, r1.PF, r1.FM, r1.Lines, r1.Files, r1.People)
		c2 := leaves.VerifNewCouplesResult(r2.PM, r2.PF, r2.FM, r2.Lines, r2.Files, r2.People)
		func() {
			defer func() {
				if r := recover(); r != nil {
					fmt.Fprintln(wi, "panic")
				}
			}()
			m := ca.MergeResults(c1, c2, &core.CommonAnalysisResult{}, &core.CommonAnalysisResult{}).(leaves.CouplesResult)
			fmt.Fprintf(wi, "%s # %s # %s # %s # %s # %s\n", strings.Join(m.Files, ","), ints(m.FilesLines), cells(m.FilesMatrix),
				cells(m.PeopleMatrix), rowsOut(m.PeopleFiles), strings.Join(leaves.VerifCouplesDict(m), ";"))
			// Go-side statement (no model): the merged file list is the union of the two lists of *literal* names, each once
			want := map[string]bool{}
			for _, f := range append(append([]string{}, r1.Files...), r2.Files...) {
				want[f] = true
			}
			got := map[string]int{}
			for _, f := range m.Files {
				got[f]++
			}
			bad := len(got) != len(want)
			for f, n := range got {
				if n != 1 || !want[f] {
					bad = true
				}
			}
			if bad {
				hv.Fail("couples-merge-files", fmt.Sprintf(`{"files1":%q,"files2":%q}`, r1.Files, r2.Files),
					fmt.Sprintf("merged file list %q is not the union of the input lists (every name once)", m.Files))
			}
			sizes[fmt.Sprintf("merged_files_%d", len(m.Files))]++
			sizes[fmt.Sprintf("merged_people_%d", len(leaves.VerifCouplesDict(m)))]++
		}()
	}
	// CommonAnalysisResult.Merge: earliest begin, latest end, sum of commits; panics on an uninitialised summary
	for it := 0; it < count; it++ {
		rng := rand.New(rand.NewSource(seed*7000003 + int64(it)))
		pick := func() int64 {
			switch rng.Intn(6) {
			case 0:
				return 0
			case 1:
				return int64(rng.Intn(5)) - 2
			default:
				return 1500000000 + int64(rng.Intn(100000))*int64(rng.Intn(3)-1)
			}
		}
		a := core.CommonAnalysisResult{BeginTime: pick(), EndTime: pick(), CommitsNumber: rng.Intn(1000), RunTimePerItem: map[string]float64{}}
		b := core.CommonAnalysisResult{BeginTime: pick(), EndTime: pick(), CommitsNumber: rng.Intn(1000), RunTimePerItem: map[string]float64{}}
		fmt.Fprintf(wo, "car %d %d %d %d %d %d\n", a.BeginTime, a.EndTime, a.CommitsNumber, b.BeginTime, b.EndTime, b.CommitsNumber)
		func() {
			defer func() {
				if r := recover(); r != nil {
					fmt.Fprintln(wi, "panic")
					sizes["summary_refused"]++
				}
			}()
			a.Merge(&b)
			fmt.Fprintf(wi, "%d %d %d\n", a.BeginTime, a.EndTime, a.CommitsNumber)
			sizes["summary_merged"]++
		}()
	}
	hv.Stats(sizes)
}
