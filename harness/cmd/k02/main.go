package main

import (
	"bufio"
	"fmt"
	"io/ioutil"
	"log"
	"os"
	"strings"

	"gopkg.in/src-d/go-git.v4/plumbing"
	"gopkg.in/src-d/go-git.v4/plumbing/object"
	"gopkg.in/src-d/hercules.v10/internal/core"
)

var kinds = []string{"C", "F", "M", "E", "D", "H", "B"}

func ancestors(parents [][]int) []map[int]bool {
	anc := make([]map[int]bool, len(parents))
	for i := range parents {
		anc[i] = map[int]bool{i: true}
		for _, p := range parents[i] {
			for a := range anc[p] {
				anc[i][a] = true
			}
		}
	}
	return anc
}

func setEq(a, b map[int]bool) bool {
	if len(a) != len(b) {
		return false
	}
	for k := range a {
		if !b[k] {
			return false
		}
	}
	return true
}

func nonRedundant(anc []map[int]bool, ps []int) map[int]bool {
	d := map[int]bool{}
	for _, p := range ps {
		d[p] = true
	}
	res := map[int]bool{}
	for p := range d {
		red := false
		for q := range d {
			if q != p && anc[q][p] {
				red = true
			}
		}
		if !red {
			res[p] = true
		}
	}
	return res
}

type br struct {
	set  map[int]bool
	last int
	hib  bool
}

func check(parents [][]int, idx map[plumbing.Hash]int, plan []core.VerifAction) string {
	anc := ancestors(parents)
	branches := map[int]*br{}
	dead := map[int]bool{}
	analysed := map[int]int{}
	for _, a := range plan {
		switch a.Action {
		case 3:
			b := a.Items[0]
			if branches[b] != nil || dead[b] {
				return "emerge"
			}
			branches[b] = &br{map[int]bool{}, -1, false}
		case 0:
			b := branches[a.Items[0]]
			if b == nil || b.hib {
				return "commit-branch"
			}
			c := idx[a.Commit.Hash]
			nr := nonRedundant(anc, parents[c])
			if b.last == -1 {
				if len(nr) != 0 || len(b.set) != 0 {
					return "commit-fresh"
				}
			} else if !nr[b.last] || !setEq(b.set, anc[b.last]) {
				return "commit-ancestry"
			}
			ns := map[int]bool{c: true}
			for k := range b.set {
				ns[k] = true
			}
			b.set, b.last = ns, c
			analysed[c]++
		case 1:
			src := branches[a.Items[0]]
			if src == nil || src.hib || len(a.Items) < 2 {
				return "fork-src"
			}
			seen := map[int]bool{a.Items[0]: true}
			for _, it := range a.Items[1:] {
				if branches[it] != nil || dead[it] || seen[it] {
					return "fork-target"
				}
				seen[it] = true
			}
			for _, it := range a.Items[1:] {
				branches[it] = &br{src.set, src.last, false}
			}
		case 2:
			if len(a.Items) < 2 {
				return "merge-arity"
			}
			seen := map[int]bool{}
			u := map[int]bool{}
			last := -2
			for _, it := range a.Items {
				b := branches[it]
				if seen[it] || b == nil || b.hib || b.last == -1 {
					return "merge-branch"
				}
				seen[it] = true
				if last == -2 {
					last = b.last
				} else if last != b.last {
					return "merge-last"
				}
				for k := range b.set {
					u[k] = true
				}
			}
			if !setEq(u, anc[last]) || len(a.Items) != len(nonRedundant(anc, parents[last])) {
				return "merge-ancestry"
			}
			for _, it := range a.Items {
				branches[it].set = u
			}
		case 4:
			b := branches[a.Items[0]]
			if b == nil || b.hib || len(a.Items) != 1 {
				return "delete"
			}
			delete(branches, a.Items[0])
			dead[a.Items[0]] = true
		case 5:
			for _, it := range a.Items {
				b := branches[it]
				if b == nil || b.hib {
					return "hibernate"
				}
				b.hib = true
			}
		case 6:
			for _, it := range a.Items {
				b := branches[it]
				if b == nil || !b.hib {
					return "boot"
				}
				b.hib = false
			}
		}
	}
	for c := range parents {
		want := len(nonRedundant(anc, parents[c]))
		if want == 0 {
			want = 1
		}
		if analysed[c] != want {
			return "replays"
		}
	}
	for _, b := range branches {
		if b.hib {
			return "left-hibernated"
		}
	}
	child := map[int]bool{}
	for _, ps := range parents {
		for _, p := range ps {
			child[p] = true
		}
	}
	heads := 0
	for c := range parents {
		if !child[c] {
			heads++
		}
	}
	if heads == 1 {
		mn := 1 << 30
		for k := range branches {
			if k < mn {
				mn = k
			}
		}
		if mn == 1<<30 || len(branches[mn].set) != len(parents) {
			return "master"
		}
	}
	return ""
}

func perms(n int) [][]int {
	if n == 0 {
		return [][]int{{}}
	}
	var res [][]int
	for _, p := range perms(n - 1) {
		for i := 0; i <= len(p); i++ {
			q := append([]int{}, p[:i]...)
			q = append(q, n-1)
			q = append(q, p[i:]...)
			res = append(res, q)
		}
	}
	return res
}

func connected(parents [][]int) bool {
	n := len(parents)
	adj := make([][]int, n)
	for i, ps := range parents {
		for _, p := range ps {
			adj[i] = append(adj[i], p)
			adj[p] = append(adj[p], i)
		}
	}
	seen := map[int]bool{0: true}
	st := []int{0}
	for len(st) > 0 {
		h := st[len(st)-1]
		st = st[:len(st)-1]
		for _, x := range adj[h] {
			if !seen[x] {
				seen[x] = true
				st = append(st, x)
			}
		}
	}
	return len(seen) == n
}

func main() {
	log.SetOutput(ioutil.Discard)
	N := 5
	fmt.Sscan(os.Args[1], &N)
	ops, _ := os.Create("ckops.txt")
	impl, _ := os.Create("ckimpl.txt")
	wo, wi := bufio.NewWriter(ops), bufio.NewWriter(impl)
	defer wo.Flush()
	defer wi.Flush()
	ps := perms(N)
	total, bad := 0, 0
	var rec func(parents [][]int)
	rec = func(parents [][]int) {
		i := len(parents)
		if i == N {
			if !connected(parents) {
				return
			}
			var pstr []string
			for _, p := range parents {
				if len(p) == 0 {
					pstr = append(pstr, "-")
				} else {
					var x []string
					for _, q := range p {
						x = append(x, fmt.Sprint(q))
					}
					pstr = append(pstr, strings.Join(x, ","))
				}
			}
			for pi, perm := range ps {
				if pi%3 != 0 {
					continue
				}
				hashes := make([]plumbing.Hash, N)
				idx := map[plumbing.Hash]int{}
				for k := 0; k < N; k++ {
					hashes[k] = plumbing.NewHash(fmt.Sprintf("%02x00000000000000000000000000000000000000", perm[k]+1))
					idx[hashes[k]] = k
				}
				cs := make([]*object.Commit, N)
				for k := range parents {
					c := &object.Commit{Hash: hashes[k]}
					for _, p := range parents[k] {
						c.ParentHashes = append(c.ParentHashes, hashes[p])
					}
					cs[k] = c
				}
				dist := pi % 4
				var plan []core.VerifAction
				ok := true
				func() {
					defer func() {
						if recover() != nil {
							ok = false
						}
					}()
					plan = core.VerifPrepareRunPlan(cs, dist)
				}()
				if !ok {
					continue
				}
				var sb []string
				for _, a := range plan {
					c := 0
					if a.Commit != nil {
						c = idx[a.Commit.Hash]
					}
					var its []string
					for _, i := range a.Items {
						its = append(its, fmt.Sprint(i))
					}
					sb = append(sb, fmt.Sprintf("%s:%d:%s", kinds[a.Action], c, strings.Join(its, ",")))
				}
				fmt.Fprintf(wo, "chk %s %s\n", strings.Join(pstr, ";"), strings.Join(sb, " "))
				v := check(parents, idx, plan)
				total++
				if v == "" {
					fmt.Fprintln(wi, "ok")
				} else {
					bad++
					fmt.Fprintln(wi, "bad")
				}
			}
			return
		}
		for mask := 0; mask < 1<<uint(i); mask++ {
			var p []int
			for k := 0; k < i; k++ {
				if mask&(1<<uint(k)) != 0 {
					p = append(p, k)
				}
			}
			if len(p) > 3 {
				continue
			}
			rec(append(parents, p))
		}
	}
	rec(nil)
	fmt.Println("N", N, "total", total, "bad", bad)
}
