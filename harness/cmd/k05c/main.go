package main

import (
	"fmt"
	"gopkg.in/src-d/hercules.v10/verifharness/hv"
	"math/rand"
	"strings"

	"gopkg.in/src-d/hercules.v10/internal/rbtree"
)

func dump(st []rbtree.VerifNode, n uint32) string {
	if n == 0 {
		return "."
	}
	c := "R"
	if st[n].Black {
		c = "B"
	}
	return fmt.Sprintf("(%d^%d %d %d %s %s %s)", n, st[n].Parent, st[n].Key, st[n].Value, c, dump(st, st[n].Left), dump(st, st[n].Right))
}

func main() {
	hvSeed, hvCount, wo, wi, _, hvDone := hv.Args()
	defer hvDone()
	rng := rand.New(rand.NewSource(hvSeed))
	for it := 0; it < hvCount; it++ {
		alloc := rbtree.NewAllocator()
		t := rbtree.NewRBTree(alloc)
		fmt.Fprintln(wo, "new")
		fmt.Fprintln(wi, "ok")
		keyRange := 4 + rng.Intn(60)
		n := 5 + rng.Intn(120)
		for i := 0; i < n; i++ {
			k := uint32(rng.Intn(keyRange))
			var flag bool
			if rng.Intn(5) < 3 {
				v := uint32(rng.Intn(1000))
				ok, iter := t.Insert(rbtree.Item{Key: k, Value: v})
				id := uint32(0)
				if ok {
					id = iter.VerifNodeOf()
				}
				fmt.Fprintf(wo, "ins %d %d %d\n", k, v, id)
				flag = ok
			} else {
				flag = t.DeleteWithKey(k)
				fmt.Fprintf(wo, "del %d\n", k)
			}
			st, _ := alloc.VerifSnapshot()
			root, mn, mx, cnt := t.VerifHeader()
			if _, _, err := t.VerifCheck(); err != nil {
				panic(err)
			}
			fmt.Fprintf(wi, "%v %s min=%d max=%d n=%d\n", flag, dump(st, root), mn, mx, cnt)
			if rng.Intn(6) == 0 {
				// deep clone into another allocator that already has nodes and gaps
				other := rbtree.NewAllocator()
				junk := rbtree.NewRBTree(other)
				for j := 0; j < rng.Intn(12); j++ {
					junk.Insert(rbtree.Item{Key: uint32(rng.Intn(40)), Value: 1})
				}
				for j := 0; j < rng.Intn(6); j++ {
					junk.DeleteWithKey(uint32(rng.Intn(40)))
				}
				usedBefore := other.Used()
				c := t.CloneDeep(other)
				var ids []string
				for it := c.Min(); !it.Limit(); it = it.Next() {
					ids = append(ids, fmt.Sprint(it.VerifNodeOf()))
				}
				line := strings.Join(ids, ",")
				if line == "" {
					line = "-"
				}
				cst, _ := other.VerifSnapshot()
				croot, cmn, cmx, ccnt := c.VerifHeader()
				if _, _, err := c.VerifCheck(); err != nil {
					panic(err)
				}
				if _, _, err := junk.VerifCheck(); err != nil {
					panic(err)
				}
				if other.Used() != usedBefore+int(ccnt) && !(usedBefore == 0 && ccnt > 0 && other.Used() == int(ccnt)+1) {
					panic(fmt.Sprintf("Used %d -> %d with %d nodes", usedBefore, other.Used(), ccnt))
				}
				fmt.Fprintf(wo, "deep %s\n", line)
				fmt.Fprintf(wi, "%s min=%d max=%d n=%d\n", dump(cst, croot), cmn, cmx, ccnt)
				// erase gives every node back
				c.Erase()
				if other.Used() != usedBefore && !(usedBefore == 0 && other.Used() == 1) {
					panic("Erase did not return all nodes")
				}
				// shallow clone on a cloned allocator is node-identical
				a2 := alloc.Clone()
				t2 := t.CloneShallow(a2)
				st2, _ := a2.VerifSnapshot()
				r2, _, _, _ := t2.VerifHeader()
				if dump(st2, r2) != dump(st, root) {
					panic("shallow clone differs")
				}
			}
		}
	}
}
