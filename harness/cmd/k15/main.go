package main

import (
	"encoding/json"
	"fmt"
	"gopkg.in/src-d/hercules.v10/verifharness/hv"
	"math/rand"
	"sort"
	"strings"

	"gopkg.in/src-d/hercules.v10/internal/toposort"
)

// node names whose string order equals numeric order
func name(i int) string { return fmt.Sprintf("n%03d", i) }

func main() {
	hvSeed, hvCount, wo, wi, _, hvDone := hv.Args()
	defer hvDone()
	rng := rand.New(rand.NewSource(hvSeed))
	nWF, nCopy := 0, 0
	defer func() {
		hv.Stats(map[string]int{"well_formed_builds_premises_checked": nWF, "copies_checked_independent": nCopy})
	}()
	// the smallest graphs first: no node at all (acyclic: the sort succeeds with the empty order), also as a copy
	for _, g0 := range []*toposort.Graph{toposort.NewGraph(), toposort.NewGraph().Copy()} {
		fmt.Fprintln(wo, "new")
		fmt.Fprintln(wi, "ok")
		fmt.Fprintln(wo, "sort")
		res, ok := g0.Toposort()
		fmt.Fprintf(wi, "%v [%s]\n", ok, strings.Join(res, ", "))
		if !ok || len(res) != 0 {
			hv.Fail("toposort", `{"nodes":0,"edges":[]}`, fmt.Sprintf("the graph without nodes sorts to %v success=%v", res, ok))
		}
	}
	for it := 0; it < hvCount; it++ {
		g := toposort.NewGraph()
		fmt.Fprintln(wo, "new")
		fmt.Fprintln(wi, "ok")
		n := 2 + rng.Intn(8)
		wellFormed := rng.Intn(4) > 0
		edges := map[[2]int]bool{}
		order := rng.Perm(n)
		for _, i := range order {
			fmt.Fprintf(wo, "node %d\n", i)
			fmt.Fprintf(wi, "%v\n", g.AddNode(name(i)))
		}
		ne := rng.Intn(2 * n)
		for k := 0; k < ne; k++ {
			a, b := rng.Intn(n), rng.Intn(n)
			if wellFormed && (edges[[2]int{a, b}] || a == b) {
				continue
			}
			if wellFormed && rng.Intn(3) > 0 && a > b {
				a, b = b, a // mostly acyclic
			}
			if edges[[2]int{a, b}] {
				// re-adding an edge gives two children the same rank; which one survives in
				// Toposort's children array depends on map order (outside the property: distinct edges)
				continue
			}
			edges[[2]int{a, b}] = true
			fmt.Fprintf(wo, "edge %d %d\n", a, b)
			fmt.Fprintf(wi, "%d\n", g.AddEdge(name(a), name(b)))
		}
		// some removals + reindex
		touched := map[int]bool{}
		removedEdges := map[[2]int]bool{}
		mustReindex := map[int]bool{}
		for e := range edges {
			if rng.Intn(5) == 0 {
				fmt.Fprintf(wo, "rm %d %d\n", e[0], e[1])
				fmt.Fprintf(wi, "%v\n", g.RemoveEdge(name(e[0]), name(e[1])))
				touched[e[0]] = true
				removedEdges[e] = true
			}
		}
		malformedOp := false
		if !wellFormed && rng.Intn(2) == 0 {
			malformedOp = true
			a, b := rng.Intn(n), rng.Intn(n)
			if edges[[2]int{a, b}] {
				removedEdges[[2]int{a, b}] = true
			}
			fmt.Fprintf(wo, "rm %d %d\n", a, b)
			fmt.Fprintf(wi, "%v\n", g.RemoveEdge(name(a), name(b)))
			touched[a] = true
		}
		// new edges from nodes that lost an edge, BEFORE they are re-indexed (what Pipeline.resolve does)
		for a := 0; a < n; a++ {
			if touched[a] && rng.Intn(2) == 0 {
				b := rng.Intn(n)
				if !edges[[2]int{a, b}] && (a != b || !wellFormed) {
					edges[[2]int{a, b}] = true
					removedEdges[[2]int{a, b}] = false
					fmt.Fprintf(wo, "edge %d %d\n", a, b)
					fmt.Fprintf(wi, "%d\n", g.AddEdge(name(a), name(b)))
					// the new edge has the rank of a surviving one until the node is re-indexed; which of the two
					// Toposort then sees depends on map order, so the node is always re-indexed before sorting
					mustReindex[a] = true
				}
			}
		}
		dirty := false
		for a := 0; a < n; a++ {
			if touched[a] && (wellFormed || mustReindex[a] || rng.Intn(2) == 0) {
				touched[a] = false
				fmt.Fprintf(wo, "reindex %d\n", a)
				fmt.Fprintln(wi, "ok")
				g.ReindexNode(name(a))
			}
		}
		for a := 0; a < n; a++ {
			if touched[a] {
				dirty = true
			}
		}
		// live edge set
		live := map[[2]int]bool{}
		for e := range edges {
			if !removedEdges[e] {
				live[e] = true
			}
		}
		caseJSON := func() string {
			var es [][2]int
			for e := range live {
				es = append(es, e)
			}
			sort.Slice(es, func(i, j int) bool { return es[i][0] < es[j][0] || es[i][0] == es[j][0] && es[i][1] < es[j][1] })
			c, _ := json.Marshal(map[string]interface{}{"nodes": n, "edges": es, "well_formed_build": wellFormed && !dirty})
			return string(c)
		}
		fmt.Fprintln(wo, "sort")
		func() {
			defer func() {
				if recover() != nil {
					fmt.Fprintln(wi, "panic")
				}
			}()
			res, ok := g.Copy().Toposort()
			var ids []string
			bad := false
			for _, s := range res {
				if s == "" {
					bad = true
					continue
				}
				var i int
				fmt.Sscanf(s, "n%d", &i)
				ids = append(ids, fmt.Sprint(i))
			}
			if bad {
				fmt.Fprintln(wi, "panic")
				return
			}
			fmt.Fprintf(wi, "%v [%s]\n", ok, strings.Join(ids, ", "))
			// Go-side statement of C15 for well-formed builds (oracle)
			if wellFormed && !dirty && !malformedOp {
				acyclic := isAcyclic(n, live)
				if ok != acyclic {
					hv.Fail("toposort", caseJSON(), fmt.Sprintf("sorting reports success=%v, the graph is acyclic=%v", ok, acyclic))
				} else if ok {
					pos := map[string]int{}
					for i, s := range ids {
						if _, dup := pos[s]; dup {
							hv.Fail("toposort", caseJSON(), "node "+s+" appears twice in the order")
						}
						pos[s] = i
					}
					if len(pos) != n {
						hv.Fail("toposort", caseJSON(), fmt.Sprintf("%d of %d nodes in the order", len(pos), n))
					}
					for e := range live {
						if pos[fmt.Sprint(e[0])] > pos[fmt.Sprint(e[1])] {
							hv.Fail("toposort", caseJSON(), fmt.Sprintf("edge %d->%d points backward in %v", e[0], e[1], ids))
						}
					}
				}
			}
		}()
		// Copy() gives an independent graph: edges added to (or removed from) a copy never show up in the original
		func() {
			defer func() {
				if r := recover(); r != nil {
					hv.Fail("copy-aliasing", caseJSON(), fmt.Sprint("panic while checking that a copy is independent: ", r))
				}
			}()
			var before []string
			okb, sortable := false, false
			func() {
				// a malformed build may make Toposort itself panic (the model agrees on those); nothing to compare then
				defer func() { recover() }()
				before, okb = g.Copy().Toposort()
				sortable = true
			}()
			if !sortable {
				return
			}
			c := g.Copy()
			for t := 0; t < 4; t++ {
				a, b := rng.Intn(n), rng.Intn(n)
				if t%2 == 0 {
					// prefer a node without children: the cheapest thing for a copy to share
					for tries := 0; tries < n && len(g.FindChildren(name(a))) > 0; tries++ {
						a = (a + 1) % n
					}
				}
				c.AddEdge(name(a), name(b))
				if t == 3 {
					c.RemoveEdge(name(b), name(a))
				}
			}
			after, oka := g.Copy().Toposort()
			if okb != oka || fmt.Sprint(before) != fmt.Sprint(after) {
				hv.Fail("copy-aliasing", caseJSON(), fmt.Sprintf("sorting the original gave %v %v before and %v %v after edges were added to a copy", okb, before, oka, after))
			}
			nCopy++
		}()
		if wellFormed && !dirty && !malformedOp {
			// premises of the refinement theorems hold on every well-formed build
			fmt.Fprintln(wo, "wf")
			fmt.Fprintln(wi, "true")
			nWF++
		}
		// FindCycle for two seeds: [] or a real cycle through the seed, non-empty whenever one exists
		for k := 0; k < 2; k++ {
			seed := rng.Intn(n)
			cyc := g.FindCycle(name(seed))
			var ids []string
			var nodes []int
			for _, s := range cyc {
				var i int
				fmt.Sscanf(s, "n%d", &i)
				ids = append(ids, fmt.Sprint(i))
				nodes = append(nodes, i)
			}
			ans := strings.Join(ids, ",")
			if ans == "" {
				ans = "-"
			}
			fmt.Fprintf(wo, "cycle %d %s\n", seed, ans)
			fmt.Fprintln(wi, "ok")
			if len(nodes) == 0 {
				if reachesItself(n, live, seed) {
					hv.Fail("find-cycle", caseJSON(), fmt.Sprintf("no cycle reported for seed %d although one exists", seed))
				}
			} else {
				good := nodes[0] == seed
				for i := range nodes {
					nx := seed
					if i+1 < len(nodes) {
						nx = nodes[i+1]
					}
					if !live[[2]int{nodes[i], nx}] {
						good = false
					}
				}
				if !good {
					hv.Fail("find-cycle", caseJSON(), fmt.Sprintf("seed %d: %v is not a cycle through the seed", seed, nodes))
				}
			}
		}
	}
}

func isAcyclic(n int, live map[[2]int]bool) bool {
	for s := 0; s < n; s++ {
		if reachesItself(n, live, s) {
			return false
		}
	}
	return true
}

func reachesItself(n int, live map[[2]int]bool, seed int) bool {
	seen := map[int]bool{}
	st := []int{seed}
	for len(st) > 0 {
		h := st[len(st)-1]
		st = st[:len(st)-1]
		for e := range live {
			if e[0] == h {
				if e[1] == seed {
					return true
				}
				if !seen[e[1]] {
					seen[e[1]] = true
					st = append(st, e[1])
				}
			}
		}
	}
	return false
}
