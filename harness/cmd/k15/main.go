package main

import (
	"fmt"
	"gopkg.in/src-d/hercules.v10/verifharness/hv"
	"math/rand"
	"strings"

	"gopkg.in/src-d/hercules.v10/internal/toposort"
)

// node names whose string order equals numeric order
func name(i int) string { return fmt.Sprintf("n%03d", i) }

func main() {
	hvSeed, hvCount, wo, wi, _, hvDone := hv.Args()
	defer hvDone()
	rng := rand.New(rand.NewSource(hvSeed))
	for it := 0; it < hvCount; it++ {
		g := toposort.NewGraph()
		fmt.Fprintln(wo, "new")
		fmt.Fprintln(wi, "ok")
		n := 2 + rng.Intn(8)
		wellFormed := rng.Intn(4) > 0
		edges := map[[2]int]bool{}
		order := rng.Perm(n)
		for _, i := range order {
			fmt.Fprintf(wo, "node %d\n", i)
			fmt.Fprintf(wi, "%v\n", g.AddNode(name(i)))
		}
		ne := rng.Intn(2 * n)
		for k := 0; k < ne; k++ {
			a, b := rng.Intn(n), rng.Intn(n)
			if wellFormed && (edges[[2]int{a, b}] || a == b) {
				continue
			}
			if wellFormed && rng.Intn(3) > 0 && a > b {
				a, b = b, a // mostly acyclic
			}
			if edges[[2]int{a, b}] {
				// re-adding an edge gives two children the same rank; which one survives in
				// Toposort's children array depends on map order (outside the property: distinct edges)
				continue
			}
			edges[[2]int{a, b}] = true
			fmt.Fprintf(wo, "edge %d %d\n", a, b)
			fmt.Fprintf(wi, "%d\n", g.AddEdge(name(a), name(b)))
		}
		// some removals + reindex
		touched := map[int]bool{}
		for e := range edges {
			if rng.Intn(5) == 0 {
				fmt.Fprintf(wo, "rm %d %d\n", e[0], e[1])
				fmt.Fprintf(wi, "%v\n", g.RemoveEdge(name(e[0]), name(e[1])))
				touched[e[0]] = true
			}
		}
		if !wellFormed && rng.Intn(2) == 0 {
			a, b := rng.Intn(n), rng.Intn(n)
			fmt.Fprintf(wo, "rm %d %d\n", a, b)
			fmt.Fprintf(wi, "%v\n", g.RemoveEdge(name(a), name(b)))
			touched[a] = true
		}
		for a := 0; a < n; a++ {
			if touched[a] && (wellFormed || rng.Intn(2) == 0) {
				fmt.Fprintf(wo, "reindex %d\n", a)
				fmt.Fprintln(wi, "ok")
				g.ReindexNode(name(a))
			}
		}
		fmt.Fprintln(wo, "sort")
		func() {
			defer func() {
				if recover() != nil {
					fmt.Fprintln(wi, "panic")
				}
			}()
			res, ok := g.Copy().Toposort()
			var ids []string
			bad := false
			for _, s := range res {
				if s == "" {
					bad = true
					continue
				}
				var i int
				fmt.Sscanf(s, "n%d", &i)
				ids = append(ids, fmt.Sprint(i))
			}
			if bad {
				fmt.Fprintln(wi, "panic")
				return
			}
			fmt.Fprintf(wi, "%v [%s]\n", ok, strings.Join(ids, ", "))
		}()
	}
}
