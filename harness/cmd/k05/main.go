package main

import (
	"fmt"
	"gopkg.in/src-d/hercules.v10/verifharness/hv"
	"math/rand"
	"sort"

	"gopkg.in/src-d/hercules.v10/internal/rbtree"
)

func dump(st []rbtree.VerifNode, n uint32) string {
	if n == 0 {
		return "."
	}
	c := "R"
	if st[n].Black {
		c = "B"
	}
	return fmt.Sprintf("(%d^%d %d %d %s %s %s)", n, st[n].Parent, st[n].Key, st[n].Value, c, dump(st, st[n].Left), dump(st, st[n].Right))
}

func main() {
	hvSeed, hvCount, wo, wi, _, hvDone := hv.Args()
	defer hvDone()
	rng := rand.New(rand.NewSource(hvSeed))
	for it := 0; it < hvCount; it++ {
		alloc := rbtree.NewAllocator()
		t := rbtree.NewRBTree(alloc)
		fmt.Fprintln(wo, "new")
		fmt.Fprintln(wi, "ok")
		keyRange := 4 + rng.Intn(60)
		// keys: small integers, or (every third tree) an increasing table spread over the whole uint32 range with the
		// boundaries 0, 2^31-1, 2^31 and 2^32-1, so that differences of keys exceed 31 bits
		keys := make([]uint32, keyRange+2)
		for i := range keys {
			keys[i] = uint32(i)
		}
		if rng.Intn(3) == 0 {
			set := map[uint32]bool{0: true, 1<<31 - 1: true, 1 << 31: true, 1<<32 - 1: true}
			for len(set) < len(keys) {
				if rng.Intn(3) == 0 {
					set[uint32(rng.Intn(50))] = true
				} else {
					set[rng.Uint32()] = true
				}
			}
			var ks []uint32
			for k := range set {
				ks = append(ks, k)
			}
			sort.Slice(ks, func(i, j int) bool { return ks[i] < ks[j] })
			copy(keys, ks[:len(keys)])
		}
		n := 5 + rng.Intn(120)
		var hist []string
		reported := false
		for i := 0; i < n; i++ {
			k := keys[rng.Intn(keyRange)]
			var flag bool
			if rng.Intn(5) < 3 {
				v := uint32(rng.Intn(1000))
				ok, iter := t.Insert(rbtree.Item{Key: k, Value: v})
				id := uint32(0)
				if ok {
					id = iter.VerifNodeOf()
				}
				fmt.Fprintf(wo, "ins %d %d %d\n", k, v, id)
				hist = append(hist, fmt.Sprintf("ins %d", k))
				flag = ok
			} else {
				flag = t.DeleteWithKey(k)
				fmt.Fprintf(wo, "del %d\n", k)
				hist = append(hist, fmt.Sprintf("del %d", k))
			}
			st, _ := alloc.VerifSnapshot()
			root, mn, mx, cnt := t.VerifHeader()
			if _, _, err := t.VerifCheck(); err != nil && !reported {
				// the red-black invariants stated on the real tree: search order, parent links, a black root, no red node
				// with a red child, equal black height on every path, count/min/max
				reported = true
				hv.Fail("rb-invariant", fmt.Sprintf(`{"ops_on_an_empty_tree":%q}`, hist), "after these operations the tree breaks an invariant: "+err.Error())
			}
			fmt.Fprintf(wi, "%v %s min=%d max=%d n=%d\n", flag, dump(st, root), mn, mx, cnt)
		}
	}
}
