// kplan: translation validation of the run planner (C02, C04).
//
// For every generated commit graph (explicit hashes, so the hash order is part of the input) the REAL
// prepareRunPlan is called; the plan is written as a `chk` line for the Lean validator (Pl.checkPlan, about
// which the soundness theorems are proved) and judged independently by the Go abstract executor below.
// impl line: ok | bad extra-replay-only | bad incomplete     (compared with the Lean validator's verdict)
// oracle   : every rejected plan is a FAIL with the decidable class of the graph
//
//	ff-extra-replay          tolerant validator accepts, strict one rejects, graph has a redundant parent edge
//	octopus-redundant-parent tolerant validator rejects, some commit has >=3 distinct parents one of which is an
//	                         ancestor of another
//	unclassified             anything else (never a known finding)
//
// usage: kplan <seed> <count> <ops> <impl> <mode> <N> [shard nshards]
//
//	mode exh : all graphs on N commits (parents among earlier commits, <=3 each, any number of components),
//	           hash orders: all N! if count==0, else `count` orders per graph drawn from the seed
//	mode rand: `count` random graphs with up to N commits
package main

import (
	"encoding/json"
	"fmt"
	"io/ioutil"
	"log"
	"math/rand"
	"os"
	"sort"
	"strings"

	"gopkg.in/src-d/go-git.v4/plumbing"
	"gopkg.in/src-d/go-git.v4/plumbing/object"
	"gopkg.in/src-d/hercules.v10/internal/core"
	"gopkg.in/src-d/hercules.v10/verifharness/hv"
)

// phantom[k]: commit k also names a parent hash that is not among the analysed commits (1: first, 2: last)
var phantom = map[int]int{}

var kinds = []string{"C", "F", "M", "E", "D", "H", "B"}

func distinct(ps []int) []int {
	var res []int
	seen := map[int]bool{}
	for _, p := range ps {
		if !seen[p] {
			seen[p] = true
			res = append(res, p)
		}
	}
	return res
}

func ancestors(parents [][]int) []map[int]bool {
	anc := make([]map[int]bool, len(parents))
	for i := range parents {
		anc[i] = map[int]bool{i: true}
		for _, p := range parents[i] {
			for a := range anc[p] {
				anc[i][a] = true
			}
		}
	}
	return anc
}

func setEq(a, b map[int]bool) bool {
	if len(a) != len(b) {
		return false
	}
	for k := range a {
		if !b[k] {
			return false
		}
	}
	return true
}

func nonRedundant(anc []map[int]bool, ps []int) map[int]bool {
	d := map[int]bool{}
	for _, p := range ps {
		d[p] = true
	}
	res := map[int]bool{}
	for p := range d {
		red := false
		for q := range d {
			if q != p && anc[q][p] {
				red = true
			}
		}
		if !red {
			res[p] = true
		}
	}
	return res
}

type br struct {
	set  map[int]bool
	last int
	hib  bool
}

// check is the Go statement of C02+C04 (Appendix B of DESIGN.md). strict: replays only on non-redundant parents.
func check(strict bool, parents [][]int, retained map[int]bool, idx map[plumbing.Hash]int, plan []core.VerifAction) string {
	anc := ancestors(parents)
	branches := map[int]*br{}
	dead := map[int]bool{}
	analysed := map[int]int{}
	for _, a := range plan {
		switch a.Action {
		case 3:
			if len(a.Items) != 1 {
				return "emerge-arity"
			}
			b := a.Items[0]
			if branches[b] != nil || dead[b] {
				return "emerge"
			}
			branches[b] = &br{map[int]bool{}, -1, false}
		case 0:
			if len(a.Items) != 1 {
				return "commit-arity"
			}
			b := branches[a.Items[0]]
			if b == nil || b.hib {
				return "commit-branch"
			}
			c := idx[a.Commit.Hash]
			ps := map[int]bool{}
			for _, p := range parents[c] {
				ps[p] = true
			}
			if strict {
				ps = nonRedundant(anc, parents[c])
			}
			if b.last == -1 {
				if len(parents[c]) != 0 || len(b.set) != 0 {
					return "commit-fresh"
				}
			} else if !ps[b.last] || !setEq(b.set, anc[b.last]) {
				return "commit-ancestry"
			}
			ns := map[int]bool{c: true}
			for k := range b.set {
				ns[k] = true
			}
			b.set, b.last = ns, c
			analysed[c]++
		case 1:
			if len(a.Items) < 2 {
				return "fork-arity"
			}
			src := branches[a.Items[0]]
			if src == nil || src.hib {
				return "fork-src"
			}
			seen := map[int]bool{a.Items[0]: true}
			for _, it := range a.Items[1:] {
				if branches[it] != nil || dead[it] || seen[it] {
					return "fork-target"
				}
				seen[it] = true
			}
			for _, it := range a.Items[1:] {
				branches[it] = &br{src.set, src.last, false}
			}
		case 2:
			if len(a.Items) < 2 {
				return "merge-arity"
			}
			seen := map[int]bool{}
			u := map[int]bool{}
			last := -2
			for _, it := range a.Items {
				b := branches[it]
				if seen[it] || b == nil || b.hib || b.last == -1 {
					return "merge-branch"
				}
				seen[it] = true
				if last == -2 {
					last = b.last
				} else if last != b.last {
					return "merge-last"
				}
				for k := range b.set {
					u[k] = true
				}
			}
			if !setEq(u, anc[last]) {
				return "merge-ancestry"
			}
			if strict && len(a.Items) != len(nonRedundant(anc, parents[last])) {
				return "merge-count"
			}
			for _, it := range a.Items {
				branches[it].set = u
			}
		case 4:
			if len(a.Items) != 1 {
				return "delete-arity"
			}
			b := branches[a.Items[0]]
			if b == nil || b.hib {
				return "delete"
			}
			delete(branches, a.Items[0])
			dead[a.Items[0]] = true
		case 5:
			for _, it := range a.Items {
				b := branches[it]
				if b == nil || b.hib {
					return "hibernate"
				}
				b.hib = true
			}
		case 6:
			for _, it := range a.Items {
				b := branches[it]
				if b == nil || !b.hib {
					return "boot"
				}
				b.hib = false
			}
		}
	}
	for c := range parents {
		if !retained[c] {
			if analysed[c] != 0 {
				return "foreign-commit"
			}
			continue
		}
		want := len(nonRedundant(anc, parents[c]))
		if want == 0 {
			want = 1
		}
		if analysed[c] == 0 {
			return "not-analysed"
		}
		if strict && analysed[c] != want {
			return "replays"
		}
	}
	for _, b := range branches {
		if b.hib {
			return "left-hibernated"
		}
	}
	child := map[int]bool{}
	for c, ps := range parents {
		if retained[c] {
			for _, p := range ps {
				child[p] = true
			}
		}
	}
	heads := 0
	for c := range parents {
		if retained[c] && !child[c] {
			heads++
		}
	}
	if heads == 1 {
		mn := 1 << 30
		for k := range branches {
			if k < mn {
				mn = k
			}
		}
		if mn == 1<<30 || len(branches[mn].set) != len(retained) {
			return "master"
		}
	}
	return ""
}

func perms(n int) [][]int {
	if n == 0 {
		return [][]int{{}}
	}
	var res [][]int
	for _, p := range perms(n - 1) {
		for i := 0; i <= len(p); i++ {
			q := append([]int{}, p[:i]...)
			q = append(q, n-1)
			q = append(q, p[i:]...)
			res = append(res, q)
		}
	}
	return res
}

func components(parents [][]int) [][]int {
	n := len(parents)
	adj := make([][]int, n)
	for i, ps := range parents {
		for _, p := range ps {
			adj[i] = append(adj[i], p)
			adj[p] = append(adj[p], i)
		}
	}
	comp := make([]int, n)
	for i := range comp {
		comp[i] = -1
	}
	var res [][]int
	for s := 0; s < n; s++ {
		if comp[s] >= 0 {
			continue
		}
		id := len(res)
		st := []int{s}
		comp[s] = id
		var members []int
		for len(st) > 0 {
			h := st[len(st)-1]
			st = st[:len(st)-1]
			members = append(members, h)
			for _, x := range adj[h] {
				if comp[x] < 0 {
					comp[x] = id
					st = append(st, x)
				}
			}
		}
		sort.Ints(members)
		res = append(res, members)
	}
	return res
}

func hasRedundantEdge(parents [][]int) bool {
	anc := ancestors(parents)
	for _, ps := range parents {
		d := distinct(ps)
		if len(nonRedundant(anc, d)) != len(d) {
			return true
		}
	}
	return false
}

func hasOctopusRedundant(parents [][]int) bool {
	anc := ancestors(parents)
	for _, ps := range parents {
		d := distinct(ps)
		if len(d) >= 3 && len(nonRedundant(anc, d)) != len(d) {
			return true
		}
	}
	return false
}

func pstr(parents [][]int) string {
	var out []string
	for _, p := range parents {
		if len(p) == 0 {
			out = append(out, "-")
		} else {
			var x []string
			for _, q := range p {
				x = append(x, fmt.Sprint(q))
			}
			out = append(out, strings.Join(x, ","))
		}
	}
	return strings.Join(out, ";")
}

var stats = map[string]int{}

func one(wo, wi interface{ WriteString(string) (int, error) }, parents [][]int, perm []int, dist int, small bool) {
	N := len(parents)
	hashes := make([]plumbing.Hash, N)
	idx := map[plumbing.Hash]int{}
	for k := 0; k < N; k++ {
		hashes[k] = plumbing.NewHash(fmt.Sprintf("%04x000000000000000000000000000000000000", perm[k]+1))
		idx[hashes[k]] = k
	}
	cs := make([]*object.Commit, N)
	for k := range parents {
		c := &object.Commit{Hash: hashes[k]}
		// a parent that is not among the analysed commits (first-parent walks, explicit commit lists, shallow clones):
		// the planner must ignore it, so the validator is given the graph without it
		ghost := plumbing.NewHash(fmt.Sprintf("ffff%04x00000000000000000000000000000000", k))
		if phantom[k] == 1 {
			c.ParentHashes = append(c.ParentHashes, ghost)
		}
		for _, p := range parents[k] {
			c.ParentHashes = append(c.ParentHashes, hashes[p])
		}
		if phantom[k] == 2 {
			c.ParentHashes = append(c.ParentHashes, ghost)
		}
		cs[k] = c
	}
	var plan []core.VerifAction
	panicked := ""
	func() {
		defer func() {
			if r := recover(); r != nil {
				panicked = fmt.Sprint(r)
			}
		}()
		plan = core.VerifPrepareRunPlan(cs, dist)
	}()
	key := fmt.Sprintf("%s|%v|%d", pstr(parents), perm, dist)
	mk := func() string {
		m := map[string]interface{}{"parents": parents, "hash_order": perm, "distance": dist, "key": key}
		if len(phantom) > 0 {
			m["parents_outside_the_analysed_set"] = phantom
		}
		if small {
			m["scope"] = "small"
		}
		c, _ := json.Marshal(m)
		return string(c)
	}
	cls := "unclassified"
	if panicked != "" {
		stats["planner-panic"]++
		wo.WriteString(fmt.Sprintf("chk %s * \n", pstr(parents)))
		wi.WriteString("bad incomplete\n")
		hv.Fail(cls, mk(), "planner panicked: "+panicked)
		return
	}
	// retained component = the one that is analysed; it must be a largest component
	comps := components(parents)
	retained := map[int]bool{}
	for _, a := range plan {
		if a.Action == 0 {
			c := idx[a.Commit.Hash]
			for _, comp := range comps {
				for _, m := range comp {
					if m == c {
						for _, x := range comp {
							retained[x] = true
						}
					}
				}
			}
			break
		}
	}
	largest := 0
	for _, comp := range comps {
		if len(comp) > largest {
			largest = len(comp)
		}
	}
	var rl []string
	for c := 0; c < N; c++ {
		if retained[c] {
			rl = append(rl, fmt.Sprint(c))
		}
	}
	var sb []string
	for _, a := range plan {
		c := 0
		if a.Commit != nil {
			c = idx[a.Commit.Hash]
		}
		var its []string
		for _, i := range a.Items {
			its = append(its, fmt.Sprint(i))
		}
		sb = append(sb, fmt.Sprintf("%s:%d:%s", kinds[a.Action], c, strings.Join(its, ",")))
	}
	wo.WriteString(fmt.Sprintf("chk %s %s %s\n", pstr(parents), strings.Join(rl, ","), strings.Join(sb, " ")))
	stats["plans"]++
	if len(comps) > 1 {
		stats["multi-component"]++
	}
	vs := check(true, parents, retained, idx, plan)
	if vs == "" && len(retained) != largest {
		vs = "retained-not-largest"
	}
	if vs == "" {
		wi.WriteString("ok\n")
		return
	}
	vt := check(false, parents, retained, idx, plan)
	if vt == "" && len(retained) != largest {
		vt = "retained-not-largest"
	}
	if vt == "" {
		wi.WriteString("bad extra-replay-only\n")
		stats["extra-replay-only"]++
		if hasRedundantEdge(parents) {
			cls = "ff-extra-replay"
		}
		hv.Fail(cls, mk(), "commit also replayed on the branch of a redundant parent ("+vs+")")
		return
	}
	wi.WriteString("bad incomplete\n")
	stats["incomplete"]++
	if hasOctopusRedundant(parents) {
		cls = "octopus-redundant-parent"
	}
	hv.Fail(cls, mk(), "plan rejected: "+vt)
}

func main() {
	log.SetOutput(ioutil.Discard)
	seed, count, wo, wi, extra, done := hv.Args()
	defer done()
	if len(extra) < 2 {
		fmt.Fprintln(os.Stderr, "kplan: need <mode> <N>")
		os.Exit(2)
	}
	mode := extra[0]
	N := 5
	fmt.Sscan(extra[1], &N)
	shard, nshards := 0, 1
	if len(extra) >= 4 {
		fmt.Sscan(extra[2], &shard)
		fmt.Sscan(extra[3], &nshards)
	}
	rng := rand.New(rand.NewSource(seed))
	switch mode {
	case "exh":
		ps := perms(N)
		gi := 0
		var rec func(parents [][]int)
		rec = func(parents [][]int) {
			i := len(parents)
			if i == N {
				gi++
				if gi%nshards != shard {
					return
				}
				if count == 0 {
					for pi, perm := range ps {
						one(wo, wi, parents, perm, pi%4, N <= 5)
					}
				} else {
					for k := 0; k < count; k++ {
						pi := rng.Intn(len(ps))
						one(wo, wi, parents, ps[pi], rng.Intn(4), false)
					}
				}
				return
			}
			for mask := 0; mask < 1<<uint(i); mask++ {
				var p []int
				for k := 0; k < i; k++ {
					if mask&(1<<uint(k)) != 0 {
						p = append(p, k)
					}
				}
				if len(p) > 3 {
					continue
				}
				rec(append(append([][]int{}, parents...), p))
			}
		}
		rec(nil)
	case "rand":
		for it := 0; it < count; it++ {
			n := 2 + rng.Intn(N-1)
			parents := make([][]int, n)
			style := rng.Intn(4)
			for c := 1; c < n; c++ {
				if rng.Intn(12) == 0 {
					continue // extra root
				}
				np := 1
				switch r := rng.Intn(10); {
				case r < 5:
					np = 1
				case r < 8:
					np = 2
				case r < 9 && style != 0:
					np = 3
				case style == 3:
					np = 4 + rng.Intn(2)
				}
				win := c
				if style >= 1 && win > 6 {
					win = 6 // recent parents: long-running parallel branches, criss-cross
				}
				seen := map[int]bool{}
				for k := 0; k < np; k++ {
					p := c - 1 - rng.Intn(win)
					if seen[p] && rng.Intn(4) != 0 {
						continue // mostly avoid duplicate parent hashes, keep a few
					}
					if style == 2 && hasAnc(parents, c, p) && rng.Intn(3) != 0 {
						continue // style 2: mostly no redundant edges
					}
					seen[p] = true
					parents[c] = append(parents[c], p)
				}
			}
			perm := rng.Perm(n)
			phantom = map[int]int{}
			if rng.Intn(4) == 0 {
				for c := 0; c < n; c++ {
					if rng.Intn(4) == 0 {
						phantom[c] = 1 + rng.Intn(2)
					}
				}
				stats["graphs-with-parents-outside-the-set"]++
			}
			one(wo, wi, parents, perm, rng.Intn(5), false)
			phantom = map[int]int{}
		}
	}
	hv.Stats(stats)
}

// hasAnc: is p an ancestor of one of the parents chosen so far for c (or vice versa)?
func hasAnc(parents [][]int, c, p int) bool {
	anc := ancestors(parents[:c])
	for _, q := range parents[c] {
		if anc[q][p] || anc[p][q] {
			return true
		}
	}
	return false
}
