// k08p: fork isolation of the built-in plumbing items (C08, second half).
// Tree-shaped histories (every commit has one parent, commits with 2-4 children): TreeDiff, BlobCache and
// TicksSinceStart are forked with the real Fork(n) at every branching commit and each branch replays its own chain.
// TreeDiff is compared with the branch-aware Lean model (ops: cfg / bcommit <branch> ... / fork <src> <dsts>);
// Go-side oracle: the clones are distinct objects, no branch ever sees a wrong-parent refusal, every blob of a reported
// change has the repository's bytes, the tick of a commit is the clamped floored elapsed time along ITS branch, and the
// shared tick registry lists every commit once.
package main

import (
	"encoding/json"
	"fmt"
	"io/ioutil"
	"log"
	"math/rand"
	"sort"
	"strconv"
	"strings"
	"time"

	"github.com/src-d/enry/v2"
	"gopkg.in/src-d/go-git.v4"
	"gopkg.in/src-d/go-git.v4/plumbing"
	"gopkg.in/src-d/go-git.v4/plumbing/filemode"
	"gopkg.in/src-d/go-git.v4/plumbing/object"
	"gopkg.in/src-d/go-git.v4/storage/memory"
	"gopkg.in/src-d/hercules.v10/internal/core"
	items "gopkg.in/src-d/hercules.v10/internal/plumbing"
	"gopkg.in/src-d/hercules.v10/verifharness/hv"
)

type fent struct {
	data []byte
	mode filemode.FileMode
	sub  bool
}

func put(st *memory.Storage, t plumbing.ObjectType, enc func(o plumbing.EncodedObject) error) plumbing.Hash {
	o := st.NewEncodedObject()
	o.SetType(t)
	enc(o)
	hh, _ := st.SetEncodedObject(o)
	return hh
}

func buildTree(st *memory.Storage, files map[string]fent, prefix string, out map[string]object.TreeEntry) plumbing.Hash {
	names := map[string]bool{}
	for p := range files {
		if strings.HasPrefix(p, prefix) {
			rest := p[len(prefix):]
			names[strings.SplitN(rest, "/", 2)[0]] = true
		}
	}
	var ns []string
	for n := range names {
		ns = append(ns, n)
	}
	isDir := func(n string) bool { _, ok := files[prefix+n]; return !ok }
	sort.Slice(ns, func(i, j int) bool {
		a, b := ns[i], ns[j]
		if isDir(a) {
			a += "/"
		}
		if isDir(b) {
			b += "/"
		}
		return a < b
	})
	var entries []object.TreeEntry
	for _, n := range ns {
		if f, ok := files[prefix+n]; ok {
			var e object.TreeEntry
			if f.sub {
				var h plumbing.Hash
				copy(h[:], f.data)
				e = object.TreeEntry{Name: n, Mode: filemode.Submodule, Hash: h}
			} else {
				bh := put(st, plumbing.BlobObject, func(o plumbing.EncodedObject) error {
					w, _ := o.Writer()
					w.Write(f.data)
					return w.Close()
				})
				e = object.TreeEntry{Name: n, Mode: f.mode, Hash: bh}
			}
			entries = append(entries, e)
			out[prefix+n] = e
		} else {
			entries = append(entries, object.TreeEntry{Name: n, Mode: filemode.Dir, Hash: buildTree(st, files, prefix+n+"/", out)})
		}
	}
	return put(st, plumbing.TreeObject, (&object.Tree{Entries: entries}).Encode)
}

type branch struct {
	td *items.TreeDiff
	bc *items.BlobCache
	ts *items.TicksSinceStart
}

func main() {
	log.SetOutput(ioutil.Discard)
	seed, count, wo, wi, _, done := hv.Args()
	defer done()
	paths := []string{"a.go", "b.py", "dir/c.go", "dir/sub/d.txt", "g.txt", "sm", "vendor/x.go"}
	contents := []string{"package main\n", "import os\n", "hello\n", "x\ny\n", "", "z\n"}
	stats := map[string]int{}
	for it := 0; it < count; it++ {
		rng := rand.New(rand.NewSource(seed*1000003 + int64(it)))
		st := memory.NewStorage()
		repo, _ := git.Init(st, nil)
		n := 3 + rng.Intn(10)
		parent := make([]int, n)
		children := make([][]int, n)
		parent[0] = -1
		for c := 1; c < n; c++ {
			p := c - 1 - rng.Intn(min(c, 3))
			if len(children[p]) >= 4 {
				p = c - 1
			}
			parent[c] = p
			children[p] = append(children[p], c)
		}
		// trees: each commit mutates its parent's file set
		fileSets := make([]map[string]fent, n)
		hashes := make([]plumbing.Hash, n)
		entriesOf := make([]map[string]object.TreeEntry, n)
		times := make([]time.Time, n)
		base := time.Date(2020, 1, 1, 0, 0, 0, 0, time.UTC)
		for c := 0; c < n; c++ {
			files := map[string]fent{}
			if c > 0 {
				for k, v := range fileSets[parent[c]] {
					files[k] = v
				}
			}
			for k := 0; k < 1+rng.Intn(3); k++ {
				p := paths[rng.Intn(len(paths))]
				switch rng.Intn(5) {
				case 0:
					delete(files, p)
				default:
					if p == "sm" && c > 0 {
						h := make([]byte, 20)
						rng.Read(h)
						files[p] = fent{data: h, sub: true}
					} else if p != "sm" {
						files[p] = fent{data: []byte(contents[rng.Intn(len(contents))]), mode: filemode.Regular}
					}
				}
			}
			fileSets[c] = files
			entries := map[string]object.TreeEntry{}
			th := buildTree(st, files, "", entries)
			entriesOf[c] = entries
			// committer times: mostly increasing along a branch, sometimes back-dated
			when := base.Add(time.Duration(c*7+rng.Intn(30)) * time.Hour)
			if c > 0 && rng.Intn(6) == 0 {
				when = times[parent[c]].Add(-time.Duration(rng.Intn(40)) * time.Hour)
			}
			times[c] = when
			sig := object.Signature{Name: "a", Email: "a@x", When: when}
			cm := &object.Commit{Author: sig, Committer: sig, Message: fmt.Sprint(c), TreeHash: th}
			if c > 0 {
				cm.ParentHashes = []plumbing.Hash{hashes[parent[c]]}
			}
			hashes[c] = put(st, plumbing.CommitObject, cm.Encode)
		}
		td := &items.TreeDiff{}
		td.Initialize(repo)
		bc := &items.BlobCache{}
		bc.Initialize(repo)
		tickSize := []time.Duration{time.Hour * 24, time.Hour * 6}[rng.Intn(2)]
		ts := &items.TicksSinceStart{}
		facts := map[string]interface{}{items.ConfigTicksSinceStartTickSize: int(tickSize / time.Hour)}
		ts.Configure(facts)
		ts.Initialize(repo)
		fmt.Fprintln(wo, "cfg - 0 0")
		hid := map[plumbing.Hash]int{}
		id := func(h plumbing.Hash) int {
			if _, ok := hid[h]; !ok {
				hid[h] = len(hid) + 1
			}
			return hid[h]
		}
		caseJSON := func() string {
			var ts []int64
			for _, t := range times {
				ts = append(ts, t.Unix())
			}
			c, _ := json.Marshal(map[string]interface{}{"case_seed": seed*1000003 + int64(it), "parent": parent, "times": ts, "tick_size_h": int(tickSize / time.Hour)})
			return string(c)
		}
		failed := false
		fail := func(what string) {
			if !failed {
				hv.Fail("plumbing-fork", caseJSON(), what)
			}
			failed = true
		}
		tick0 := items.FloorTime(times[0], tickSize)
		wantTick := make([]int, n)
		index := 0
		nextBranch := 1
		var walk func(c int, br branch, bid int)
		walk = func(c int, br branch, bid int) {
			commit, _ := repo.CommitObject(hashes[c])
			var fl []string
			var names []string
			for p := range entriesOf[c] {
				names = append(names, p)
			}
			sort.Strings(names)
			for _, p := range names {
				e := entriesOf[c][p]
				f := ""
				if e.Mode == filemode.Submodule {
					f += "s"
				}
				if enry.IsVendor(p) {
					f += "v"
				}
				fl = append(fl, fmt.Sprintf("%s=%d.%d.%s", p, id(e.Hash), uint32(e.Mode), f))
			}
			fs := strings.Join(fl, ";")
			if fs == "" {
				fs = "-"
			}
			pj := "-"
			if c > 0 {
				pj = strconv.Itoa(parent[c])
			}
			fmt.Fprintf(wo, "bcommit %d %d %s %s\n", bid, c, pj, fs)
			deps := map[string]interface{}{core.DependencyCommit: commit, core.DependencyIndex: index, core.DependencyIsMerge: false}
			index++
			stats["commits"]++
			r1, err := br.td.Consume(deps)
			if err != nil {
				fmt.Fprintln(wi, "err wrong-parent")
				fail(fmt.Sprintf("commit %d on branch %d: TreeDiff refused it (%v) although its parent was the branch's previous commit", c, bid, err))
				return
			}
			changes := r1[items.DependencyTreeChanges].(object.Changes)
			var out []string
			side := func(e object.ChangeEntry) string {
				if e.Name == "" {
					return "-"
				}
				return fmt.Sprintf("%d.%d", id(e.TreeEntry.Hash), uint32(e.TreeEntry.Mode))
			}
			for _, ch := range changes {
				name := ch.To.Name
				if name == "" {
					name = ch.From.Name
				}
				out = append(out, fmt.Sprintf("%s:%s>%s", name, side(ch.From), side(ch.To)))
			}
			sort.Strings(out)
			fmt.Fprintln(wi, strings.Join(out, " "))
			deps[items.DependencyTreeChanges] = changes
			r2, err := br.bc.Consume(deps)
			if err != nil {
				fail(fmt.Sprintf("commit %d on branch %d: BlobCache failed: %v", c, bid, err))
			} else {
				cache := r2[items.DependencyBlobCache].(map[plumbing.Hash]*items.CachedBlob)
				for _, ch := range changes {
					if ch.To.Name != "" {
						f := fileSets[c][ch.To.Name]
						cb := cache[ch.To.TreeEntry.Hash]
						if cb == nil || (!f.sub && string(cb.Data) != string(f.data)) {
							fail(fmt.Sprintf("commit %d on branch %d: blob of %s is not the repository's", c, bid, ch.To.Name))
						}
					}
					if ch.From.Name != "" && c > 0 {
						f := fileSets[parent[c]][ch.From.Name]
						cb := cache[ch.From.TreeEntry.Hash]
						if cb == nil || (!f.sub && string(cb.Data) != string(f.data)) {
							fail(fmt.Sprintf("commit %d on branch %d: old blob of %s is not the repository's", c, bid, ch.From.Name))
						}
					}
				}
			}
			r3, _ := br.ts.Consume(deps)
			tick := r3[items.DependencyTick].(int)
			want := int(times[c].Sub(tick0) / tickSize)
			if c > 0 && want < wantTick[parent[c]] {
				want = wantTick[parent[c]]
			}
			if want < 0 {
				want = 0
			}
			wantTick[c] = want
			registry := facts[items.FactCommitsByTick].(map[int][]plumbing.Hash)
			listed := 0
			for _, hs := range registry {
				for _, h := range hs {
					if h == hashes[c] {
						listed++
					}
				}
			}
			if listed != 1 {
				fail(fmt.Sprintf("commit %d is listed %d times in the tick registry", c, listed))
			}
			if tick != want {
				fail(fmt.Sprintf("commit %d on branch %d: tick %d, the floored elapsed time raised along this branch gives %d", c, bid, tick, want))
			}
			ch := children[c]
			if len(ch) == 0 {
				return
			}
			brs := []branch{br}
			bids := []int{bid}
			if len(ch) > 1 {
				k := len(ch) - 1
				tds, bcs, tss := br.td.Fork(k), br.bc.Fork(k), br.ts.Fork(k)
				var dsts []string
				for i := 0; i < k; i++ {
					nb := branch{tds[i].(*items.TreeDiff), bcs[i].(*items.BlobCache), tss[i].(*items.TicksSinceStart)}
					for _, o := range brs {
						if o.td == nb.td || o.bc == nb.bc || o.ts == nb.ts {
							fail(fmt.Sprintf("Fork(%d) after commit %d returned the same object for two branches", k, c))
						}
					}
					brs = append(brs, nb)
					bids = append(bids, nextBranch)
					dsts = append(dsts, strconv.Itoa(nextBranch))
					nextBranch++
				}
				fmt.Fprintf(wo, "fork %d %s\n", bid, strings.Join(dsts, ","))
				fmt.Fprintln(wi, "ok")
				stats["forks"]++
			}
			// interleave: replay the first commit of every branch before going deeper? the pipeline finishes a
			// branch segment before the next; replay children in a random order
			order := rng.Perm(len(ch))
			for _, i := range order {
				walk(ch[i], brs[i], bids[i])
			}
		}
		walk(0, branch{td, bc, ts}, 0)
	}
	hv.Stats(stats)
}

func min(a, b int) int {
	if a < b {
		return a
	}
	return b
}
