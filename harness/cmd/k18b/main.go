// k18b: BurndownAnalysis.MergeResults, people part (C18), Go-side statement of the property: each merged developer's
// burndown history is mergeMatrices(sum of the histories of the first result's developers of that merged identity,
// the same for the second result), and the interaction matrix is the re-indexed sum of the inputs.
// The class of a failure is computed from the inputs alone: `merged-identity-key` when some merged identity is not
// one input string carrying both of its members' positions (defect D6, repaired by c03597d: no longer a listed
// finding, so it is reported again if it returns); otherwise `burndown-people-merge`.
package main

import (
	"encoding/json"
	"fmt"
	"math/rand"
	"reflect"

	"gopkg.in/src-d/hercules.v10/internal/core"
	"gopkg.in/src-d/hercules.v10/internal/plumbing/identity"
	"gopkg.in/src-d/hercules.v10/leaves"
	"gopkg.in/src-d/hercules.v10/verifharness/hv"
)

const day = int64(24 * 3600)

func genHist(rng *rand.Rand, size, s, g int) leaves.DenseHistory {
	rows, cols := (size+s-1)/s, (size+g-1)/g
	m := make(leaves.DenseHistory, rows)
	for i := range m {
		m[i] = make([]int64, cols)
	}
	for j := 0; j < cols; j++ {
		v := int64(rng.Intn(400))
		for i := 0; i < rows; i++ {
			if j*g > (i+1)*s {
				continue
			}
			m[i][j] = v
			if v > 0 && rng.Intn(3) == 0 {
				v -= int64(rng.Intn(int(v) + 1))
			}
		}
	}
	return m
}

func addInto(acc, m leaves.DenseHistory) leaves.DenseHistory {
	if acc == nil {
		acc = make(leaves.DenseHistory, len(m))
		for i := range m {
			acc[i] = make([]int64, len(m[i]))
		}
	}
	for i := range m {
		for j := range m[i] {
			acc[i][j] += m[i][j]
		}
	}
	return acc
}

type side struct {
	Dict   []string
	Begin  int64
	End    int64
	Hists  []leaves.DenseHistory
	Global leaves.DenseHistory
	Matrix leaves.DenseHistory
}

func main() {
	poolA := []string{"ann|ann@x", "bob|bob@x", "carl|carl@y", "dee|dee@x", "fay|fay@a", "gil|gil@b", "hal|hal@h"}
	poolB := []string{"ann|ann@x", "bob|bob@work", "charles|carl@y", "dee|dee@x|dee@y", "fay|gil@b", "eve|eve@e", "hal|hal@h"}
	hv.RunOracle(func(cs int64, extra []string) (string, string, string, []string) {
		rng := rand.New(rand.NewSource(cs))
		sg := [][2]int{{1, 1}, {1, 1}, {2, 2}, {2, 3}, {2, 5}}[rng.Intn(5)]
		s, g := sg[0], sg[1]
		base := int64(17000+rng.Intn(100)) * day
		mk := func(pool []string, sane bool) side {
			var sd side
			for _, p := range pool {
				if rng.Intn(2) == 0 && (!sane || p == "ann|ann@x" || p == "hal|hal@h" || p == "eve|eve@e" || p == "bob|bob@x") {
					sd.Dict = append(sd.Dict, p)
				}
			}
			rng.Shuffle(len(sd.Dict), func(i, j int) { sd.Dict[i], sd.Dict[j] = sd.Dict[j], sd.Dict[i] })
			sd.Begin = base + int64(rng.Intn(6))*day + int64(rng.Intn(int(day)))
			size := 1 + rng.Intn(9)
			beginDay := sd.Begin / day
			sd.End = (beginDay+int64(size))*day - int64(rng.Intn(int(day)-1))
			for range sd.Dict {
				sd.Hists = append(sd.Hists, genHist(rng, size, s, g))
			}
			sd.Matrix = make(leaves.DenseHistory, len(sd.Dict))
			for i := range sd.Matrix {
				sd.Matrix[i] = make([]int64, len(sd.Dict)+2)
				for j := range sd.Matrix[i] {
					if rng.Intn(2) == 0 {
						sd.Matrix[i][j] = int64(rng.Intn(50))
					}
				}
			}
			if rng.Intn(8) == 0 {
				sd.Dict, sd.Hists, sd.Matrix = nil, nil, nil // a result produced without developer tracking
			}
			sd.Global = genHist(rng, size, s, g)
			return sd
		}
		wantSane := rng.Intn(2) == 0
		a, b := mk(poolA, wantSane), mk(poolB, wantSane)
		desc, _ := json.Marshal(map[string]interface{}{"seed": cs, "sampling": s, "granularity": g, "r1": a, "r2": b})
		if len(a.Dict) == 0 && len(b.Dict) == 0 {
			return string(desc), "burndown-people-merge", "", []string{"skipped_no_developers"}
		}
		c1 := &core.CommonAnalysisResult{BeginTime: a.Begin, EndTime: a.End, CommitsNumber: 1, RunTimePerItem: map[string]float64{}}
		c2 := &core.CommonAnalysisResult{BeginTime: b.Begin, EndTime: b.End, CommitsNumber: 1, RunTimePerItem: map[string]float64{}}
		r1 := leaves.VerifNewBurndownResult(a.Global, a.Hists, a.Matrix, a.Dict, day*1e9, s, g)
		r2 := leaves.VerifNewBurndownResult(b.Global, b.Hists, b.Matrix, b.Dict, day*1e9, s, g)
		people, mergedDict := identity.MergeReversedDictsIdentities(a.Dict, b.Dict)
		np := len(mergedDict)
		// members of every merged identity, and the class of the case
		m1, m2 := make([][]int, np), make([][]int, np)
		for i, k := range a.Dict {
			m1[people[k].Final] = append(m1[people[k].Final], i)
		}
		for i, k := range b.Dict {
			m2[people[k].Final] = append(m2[people[k].Final], i)
		}
		sane := true
		for I, key := range mergedDict {
			p, ok := people[key]
			if !ok || len(m1[I]) > 1 || len(m2[I]) > 1 ||
				(len(m1[I]) == 1) != (p.First >= 0) || (len(m2[I]) == 1) != (p.Second >= 0) ||
				(len(m1[I]) == 1 && p.First != m1[I][0]) || (len(m2[I]) == 1 && p.Second != m2[I][0]) {
				sane = false
			}
		}
		if len(a.Dict) == 0 || len(b.Dict) == 0 {
			sane = true // one-sided: every merged identity is an input string with its own position
			for I, key := range mergedDict {
				p, ok := people[key]
				if !ok || len(m1[I])+len(m2[I]) != 1 || (len(m1[I]) == 1 && p.First != m1[I][0]) || (len(m2[I]) == 1 && p.Second != m2[I][0]) {
					sane = false
				}
			}
		}
		class, tag := "burndown-people-merge", "identities_kept"
		if !sane {
			class, tag = "merged-identity-key", "identities_changed_by_merge"
		}
		var merged leaves.BurndownResult
		msg := ""
		func() {
			defer func() {
				if r := recover(); r != nil {
					msg = fmt.Sprintf("panic: %v", r)
				}
			}()
			ba := &leaves.BurndownAnalysis{}
			merged = ba.MergeResults(r1, r2, c1, c2).(leaves.BurndownResult)
		}()
		if msg != "" {
			return string(desc), class, msg, []string{tag}
		}
		if fmt.Sprint(leaves.VerifBurndownDict(merged)) != fmt.Sprint(mergedDict) {
			return string(desc), class, "merged identity list is not MergeReversedDictsIdentities of the inputs", []string{tag}
		}
		if len(merged.PeopleHistories) != np {
			return string(desc), class, fmt.Sprintf("%d developer histories for %d merged developers", len(merged.PeopleHistories), np), []string{tag}
		}
		for I := 0; I < np; I++ {
			var s1, s2 leaves.DenseHistory
			for _, i := range m1[I] {
				s1 = addInto(s1, a.Hists[i])
			}
			for _, i := range m2[I] {
				s2 = addInto(s2, b.Hists[i])
			}
			want := leaves.VerifMergeMatrices(s1, s2, g, s, g, s, day*1e9, c1, c2)
			if !reflect.DeepEqual(want, merged.PeopleHistories[I]) {
				return string(desc), class, fmt.Sprintf("history of merged developer %d (%s; members %v of the first, %v of the second result) is %v, merging exactly its members gives %v",
					I, mergedDict[I], m1[I], m2[I], merged.PeopleHistories[I], want), []string{tag}
			}
		}
		// interaction matrix: column 0/1 and per-developer columns are re-indexed sums
		want := make(leaves.DenseHistory, np)
		for i := range want {
			want[i] = make([]int64, np+2)
		}
		for _, sd := range []struct {
			s  side
			mm [][]int
		}{{a, m1}, {b, m2}} {
			fin := func(i int) int { return people[sd.s.Dict[i]].Final }
			for i, row := range sd.s.Matrix {
				want[fin(i)][0] += row[0]
				want[fin(i)][1] += row[1]
				for j, v := range row[2:] {
					want[fin(i)][2+fin(j)] += v
				}
			}
		}
		// the global history is the merge of the global histories
		if wg := leaves.VerifMergeMatrices(a.Global, b.Global, g, s, g, s, day*1e9, c1, c2); !reflect.DeepEqual(wg, merged.GlobalHistory) {
			return string(desc), "burndown-people-merge", "global history is not mergeMatrices of the inputs' global histories", []string{tag}
		}
		if !reflect.DeepEqual(want, merged.PeopleMatrix) && !(len(want) == 0 && len(merged.PeopleMatrix) == 0) {
			return string(desc), class, fmt.Sprintf("interaction matrix %v, re-indexed sums of the inputs %v", merged.PeopleMatrix, want), []string{tag}
		}
		// the merged histories depend on the begin times only through the ticks they fall into: moving both begin times
		// to the start of their ticks changes nothing
		al := func(c *core.CommonAnalysisResult) *core.CommonAnalysisResult {
			d := *c
			d.BeginTime = c.BeginTime / day * day
			d.RunTimePerItem = map[string]float64{}
			return &d
		}
		var merged2 leaves.BurndownResult
		func() {
			defer func() {
				if r := recover(); r != nil {
					msg = fmt.Sprintf("panic with tick-aligned begin times: %v", r)
				}
			}()
			merged2 = (&leaves.BurndownAnalysis{}).MergeResults(r1, r2, al(c1), al(c2)).(leaves.BurndownResult)
		}()
		if msg != "" {
			return string(desc), "burndown-merge-time-of-day", msg, []string{tag}
		}
		if !reflect.DeepEqual(merged.GlobalHistory, merged2.GlobalHistory) || !reflect.DeepEqual(merged.PeopleHistories, merged2.PeopleHistories) {
			return string(desc), "burndown-merge-time-of-day", fmt.Sprintf("the merged histories depend on the time of day of the begin times: project history %v, with both begin times moved to the start of their ticks %v",
				merged.GlobalHistory, merged2.GlobalHistory), []string{tag}
		}
		return string(desc), class, "", []string{tag}
	})
}
