package main

import "gopkg.in/src-d/go-git.v4"

type gitRepository = git.Repository
