package main

import (
	"fmt"
	"gopkg.in/src-d/hercules.v10/verifharness/hv"
	"io/ioutil"
	"log"
	"math/rand"
	"reflect"
	"sort"
	"strings"
	"time"

	"github.com/sergi/go-diff/diffmatchpatch"
	"gopkg.in/src-d/go-git.v4"
	"gopkg.in/src-d/go-git.v4/plumbing"
	"gopkg.in/src-d/go-git.v4/plumbing/object"
	"gopkg.in/src-d/go-git.v4/storage/memory"
	"gopkg.in/src-d/hercules.v10/internal/core"
	items "gopkg.in/src-d/hercules.v10/internal/plumbing"
	"gopkg.in/src-d/hercules.v10/internal/plumbing/identity"
)

// ---------- C16
func c16(rng *rand.Rand) string { return c16G(rng, false) }

// class of a mailmap case: some key is mapped twice or is both a source and a target (chained / conflicting mailmap)
var mmChain bool

// the same with a .mailmap file in the tree of the last commit (GeneratePeopleDict seeds the dictionary from it)
func c16mm(rng *rand.Rand) string { return c16G(rng, true) }

func c16G(rng *rand.Rand, withMailmap bool) string {
	names := []string{"Ann", "ann", "Bob", "BOB", "carl", "", "Dee"}
	mails := []string{"a@x", "A@X", "b@x", "c@x", "", "d@y"}
	n := 1 + rng.Intn(8)
	var commits []*object.Commit
	st := memory.NewStorage()
	repo, _ := git.Init(st, nil)
	tree := &object.Tree{}
	mailmapText := ""
	if withMailmap {
		proper := []string{"Annette", "Robert", "Carl C", "Dee"}
		pmails := []string{"ann@corp", "bob@corp", "a@x", "d@y"}
		var lines []string
		wantMM := map[string]object.Signature{} // what the four record forms of git's mailmap mean, later records win
		mmChain = false
		srcs, tgts := map[string]int{}, map[string]bool{}
		note := func(src []string, tgt []string) {
			for _, x := range src {
				srcs[strings.ToLower(x)]++
			}
			for _, x := range tgt {
				if x != "" {
					tgts[strings.ToLower(x)] = true
				}
			}
		}
		defer func() {
			for k, n := range srcs {
				if n > 1 || tgts[k] {
					mmChain = true // an address or name is mapped twice, or is both mapped away and mapped to
				}
			}
		}()
		for k := 1 + rng.Intn(4); k > 0; k-- {
			pn, pm := proper[rng.Intn(len(proper))], pmails[rng.Intn(len(pmails))]
			cn, cmail := names[rng.Intn(len(names))], mails[rng.Intn(len(mails))]
			if cmail == "" {
				cmail = "b@x"
			}
			switch rng.Intn(5) {
			case 0:
				lines = append(lines, fmt.Sprintf("%s <%s> <%s>", pn, pm, cmail))
				note([]string{cmail}, []string{pn, pm})
				wantMM[cmail] = object.Signature{Name: pn, Email: pm}
			case 1:
				lines = append(lines, fmt.Sprintf("%s <%s> %s <%s>", pn, pm, cn, cmail))
				if cn != "" {
					note([]string{cmail, cn}, []string{pn, pm})
					wantMM[cn] = object.Signature{Name: pn, Email: pm}
				} else {
					note([]string{cmail}, []string{pn, pm})
				}
				wantMM[cmail] = object.Signature{Name: pn, Email: pm}
			case 2:
				lines = append(lines, fmt.Sprintf("%s <%s>", pn, cmail))
				note([]string{cmail}, []string{pn})
				wantMM[cmail] = object.Signature{Name: pn}
				wantMM[pn] = object.Signature{Name: pn}
			case 3:
				lines = append(lines, fmt.Sprintf("<%s> <%s>", pm, cmail))
				note([]string{cmail}, []string{pm})
				wantMM[cmail] = object.Signature{Email: pm}
			default:
				lines = append(lines, "# comment", "")
			}
		}
		if rng.Intn(2) == 0 {
			// the same records with tabs or runs of blanks between the fields (git accepts any white space there)
			sep := []string{"\t", "  ", " \t "}[rng.Intn(3)]
			for i, l := range lines {
				if !strings.HasPrefix(l, "#") {
					lines[i] = strings.Replace(strings.Replace(l, " <", sep+"<", -1), "> ", ">"+sep, -1)
				}
			}
		}
		mailmapText = strings.Join(lines, "\n") + "\n"
		if got := identity.ParseMailmap(mailmapText); !reflect.DeepEqual(got, wantMM) {
			return fmt.Sprintf("ParseMailmap(%q) = %v, the records mean %v", mailmapText, got, wantMM)
		}
		bo := st.NewEncodedObject()
		bo.SetType(plumbing.BlobObject)
		w, _ := bo.Writer()
		w.Write([]byte(mailmapText))
		w.Close()
		bh, _ := st.SetEncodedObject(bo)
		tree.Entries = append(tree.Entries, object.TreeEntry{Name: ".mailmap", Mode: 0100644, Hash: bh})
	}
	eo := st.NewEncodedObject()
	tree.Encode(eo)
	th, _ := st.SetEncodedObject(eo)
	for i := 0; i < n; i++ {
		cm := &object.Commit{Author: object.Signature{Name: names[rng.Intn(len(names))], Email: mails[rng.Intn(len(mails))]}, Message: fmt.Sprint(i), TreeHash: th}
		o := st.NewEncodedObject()
		cm.Encode(o)
		h, _ := st.SetEncodedObject(o)
		c, err := repo.CommitObject(h)
		if err != nil {
			return err.Error()
		}
		commits = append(commits, c)
	}
	for _, exact := range []bool{false, true} {
		d := &identity.Detector{ExactSignatures: exact}
		d.GeneratePeopleDict(commits)
		if d.PeopleDict == nil {
			return "generate panicked"
		}
		ids := map[string]int{}
		for _, c := range commits {
			r, _ := d.Consume(map[string]interface{}{core.DependencyCommit: c})
			id := r[identity.DependencyAuthor].(int)
			if id < 0 || id >= len(d.ReversedPeopleDict) {
				return fmt.Sprintf("exact=%v id %d out of range %d", exact, id, len(d.ReversedPeopleDict))
			}
			key := strings.ToLower(c.Author.Email)
			if exact {
				key = strings.ToLower(c.Author.String())
			}
			if prev, ok := ids[key]; ok && prev != id {
				return fmt.Sprintf("same e-mail, different developers (commits %v, mailmap %q)", sigs(commits), mailmapText)
			}
			ids[key] = id
		}
		// forked copies of the detector answer as the original does (same option, same shared tables), and merging
		// them back changes nothing
		forks := d.Fork(3)
		for fi, f := range forks {
			for _, c := range commits {
				r0, _ := d.Consume(map[string]interface{}{core.DependencyCommit: c})
				r1, err := f.Consume(map[string]interface{}{core.DependencyCommit: c})
				if err != nil || r1[identity.DependencyAuthor] != r0[identity.DependencyAuthor] {
					return fmt.Sprintf("exact=%v: fork %d of the detector resolves %q to %v, the original to %v (commits %v)",
						exact, fi, c.Author.String(), r1[identity.DependencyAuthor], r0[identity.DependencyAuthor], sigs(commits))
				}
			}
		}
		d.Merge(forks)
		for _, c := range commits {
			r, _ := d.Consume(map[string]interface{}{core.DependencyCommit: c})
			key := strings.ToLower(c.Author.Email)
			if exact {
				key = strings.ToLower(c.Author.String())
			}
			if r[identity.DependencyAuthor].(int) != ids[key] {
				return fmt.Sprintf("exact=%v: after Fork+Merge %q resolves to %v instead of %d", exact, c.Author.String(), r[identity.DependencyAuthor], ids[key])
			}
		}
		if !exact {
			// description = exactly keys mapped to id
			for id, desc := range d.ReversedPeopleDict {
				var want []string
				for k, v := range d.PeopleDict {
					if v == id {
						want = append(want, k)
					}
				}
				got := strings.Split(desc, "|")
				// names and e-mails share the key space: dedupe the description
				seen := map[string]bool{}
				var g2 []string
				for _, x := range got {
					if !seen[x] {
						seen[x] = true
						g2 = append(g2, x)
					}
				}
				got = g2
				if withMailmap {
					// a developer known from the mailmap only by e-mail has an empty name part in "names|emails": the
					// empty token is layout, not an identity
					strip := func(l []string) []string {
						var o []string
						for _, x := range l {
							if x != "" {
								o = append(o, x)
							}
						}
						return o
					}
					want, got = strip(want), strip(got)
				}
				sort.Strings(want)
				sort.Strings(got)
				// got may contain "" from empty names/emails join
				if strings.Join(want, ",") != strings.Join(got, ",") {
					return fmt.Sprintf("desc mismatch id %d: want %q got %q (commits %v, mailmap %q)", id, want, got, sigs(commits), mailmapText)
				}
			}
		}
	}
	return ""
}

func sigs(cs []*object.Commit) []string {
	var r []string
	for _, c := range cs {
		r = append(r, c.Author.Name+"<"+c.Author.Email+">")
	}
	return r
}

// merge identities vs union-find, WF lists (parts disjoint within a list)
func c16merge(rng *rand.Rand) string { return c16mergeG(rng, false) }

// the same with lists in which a token may occur in two entries of one list (reachable through a hand-written
// people dictionary): outside the premise of the component theorems, known finding D9
var sharedWithin bool

func c16mergeS(rng *rand.Rand) string { return c16mergeG(rng, true) }

func c16mergeG(rng *rand.Rand, shared bool) string {
	vocab := []string{"a", "b", "c", "d", "e", "f@x", "g@x", "h@x", "i@x", "j"}
	mk := func() []string {
		perm := rng.Perm(len(vocab))
		var res []string
		i := 0
		for i < len(perm) && len(res) < 4 {
			k := 1 + rng.Intn(3)
			var parts []string
			for j := 0; j < k && i < len(perm); j++ {
				parts = append(parts, vocab[perm[i]])
				i++
			}
			if rng.Intn(4) > 0 {
				res = append(res, strings.Join(parts, "|"))
			}
		}
		if shared && len(res) >= 2 {
			// one token of an entry is repeated in another entry of the same list
			from, to := rng.Intn(len(res)), rng.Intn(len(res))
			if from != to {
				ps := strings.Split(res[from], "|")
				res[to] = res[to] + "|" + ps[rng.Intn(len(ps))]
			}
		}
		return res
	}
	rd1, rd2 := mk(), mk()
	sharedWithin = false
	for _, rd := range [][]string{rd1, rd2} {
		seen := map[string]int{}
		for i, e := range rd {
			for _, t := range strings.Split(e, "|") {
				if j, ok := seen[t]; ok && j != i {
					sharedWithin = true
				}
				seen[t] = i
			}
		}
	}
	idx, merged := identity.MergeReversedDictsIdentities(rd1, rd2)
	// union find over identities
	type ident struct{ list, i int }
	var all []ident
	for i := range rd1 {
		all = append(all, ident{1, i})
	}
	for i := range rd2 {
		all = append(all, ident{2, i})
	}
	parts := func(x ident) []string {
		if x.list == 1 {
			return strings.Split(rd1[x.i], "|")
		}
		return strings.Split(rd2[x.i], "|")
	}
	parent := make([]int, len(all))
	for i := range parent {
		parent[i] = i
	}
	var find func(int) int
	find = func(x int) int {
		if parent[x] != x {
			parent[x] = find(parent[x])
		}
		return parent[x]
	}
	for i := range all {
		for j := range all {
			for _, p := range parts(all[i]) {
				for _, q := range parts(all[j]) {
					if p == q {
						parent[find(i)] = find(j)
					}
				}
			}
		}
	}
	str := func(x ident) string {
		if x.list == 1 {
			return rd1[x.i]
		}
		return rd2[x.i]
	}
	for i := range all {
		mi, ok := idx[str(all[i])]
		if !ok {
			return fmt.Sprintf("no index for %q (%v %v)", str(all[i]), rd1, rd2)
		}
		if all[i].list == 1 && mi.First != all[i].i || all[i].list == 2 && mi.Second != all[i].i {
			if !(str(all[i]) == "") {
				// the same string may appear in both lists
				same := false
				for _, o := range all {
					if o != all[i] && str(o) == str(all[i]) {
						same = true
					}
				}
				if !same {
					return fmt.Sprintf("back pointer wrong for %q: %+v (%v %v)", str(all[i]), mi, rd1, rd2)
				}
			}
		}
		// an identity whose string does not occur in the other list has no pointer into it
		inOther := false
		for _, o := range all {
			if o.list != all[i].list && str(o) == str(all[i]) {
				inOther = true
			}
		}
		if !inOther && (all[i].list == 1 && mi.Second != -1 || all[i].list == 2 && mi.First != -1) {
			return fmt.Sprintf("%q occurs only in list %d but has pointers %+v (%v %v)", str(all[i]), all[i].list, mi, rd1, rd2)
		}
		for j := range all {
			mj := idx[str(all[j])]
			if (find(i) == find(j)) != (mi.Final == mj.Final) {
				return fmt.Sprintf("component mismatch %q %q (%v %v) -> %v", str(all[i]), str(all[j]), rd1, rd2, idx)
			}
		}
		// merged description = union of component parts
		want := map[string]bool{}
		for j := range all {
			if find(i) == find(j) {
				for _, p := range parts(all[j]) {
					want[p] = true
				}
			}
		}
		got := strings.Split(merged[mi.Final], "|")
		if len(got) != len(want) {
			return fmt.Sprintf("merged desc %q vs %v", merged[mi.Final], want)
		}
		for _, g := range got {
			if !want[g] {
				return "merged desc has foreign part"
			}
		}
	}
	return ""
}

// ---------- C19
func c19(rng *rand.Rand) string {
	hours := []int{1, 6, 7, 24, 168}[rng.Intn(5)]
	d := time.Duration(hours) * time.Hour
	ts := &items.TicksSinceStart{}
	facts := map[string]interface{}{items.ConfigTicksSinceStartTickSize: hours}
	ts.Configure(facts)
	r0, _ := git.Init(memory.NewStorage(), nil)
	ts.Initialize(r0)
	base := time.Date(1985+rng.Intn(60), time.Month(1+rng.Intn(12)), 1+rng.Intn(28), rng.Intn(24), rng.Intn(60), rng.Intn(60), rng.Intn(1e9), time.FixedZone("z", (rng.Intn(25)-12)*3600))
	t0 := items.FloorTime(base, d)
	if t0.After(base) || base.Sub(t0) >= d {
		return fmt.Sprintf("FloorTime wrong %v %v %v", base, t0, d)
	}
	prevTick := 0
	cur := base
	for i := 0; i < 10; i++ {
		var h plumbing.Hash
		rng.Read(h[:])
		c := &object.Commit{Hash: h, Committer: object.Signature{When: cur}}
		if i > 0 {
			c.ParentHashes = []plumbing.Hash{{1}}
		}
		r, _ := ts.Consume(map[string]interface{}{core.DependencyCommit: c, core.DependencyIndex: i})
		tick := r[items.DependencyTick].(int)
		want := int(cur.Sub(t0) / d)
		if want < prevTick {
			want = prevTick
		}
		if tick != want {
			return fmt.Sprintf("tick %d want %d", tick, want)
		}
		prevTick = tick
		step := time.Duration(rng.Int63n(int64(3*d))) - time.Duration(rng.Int63n(int64(d)))/2
		cur = cur.Add(step)
	}
	return ""
}

// ---------- C11
func c11(rng *rand.Rand) string { return c11G(rng, false) }

// the same with FileDiff.WhitespaceIgnore (spaces are ignored when lines are compared)
func c11ws(rng *rand.Rand) string { return c11G(rng, true) }

func c11G(rng *rand.Rand, ws bool) string {
	pool := []string{"a", "b", "c", "a", "", "x y", "é", "\xff\xfe", "line\r"}
	if ws {
		pool = []string{"a", "b", " a", "a ", "", "x y", "xy", "  ", " ", "b\r"}
	}
	maxLines := 8
	if rng.Intn(2) == 0 {
		// few distinct lines, many repeats: edits can slide over equal runs in the cleanup passes
		pool = []string{"l0", "l1", "l2"}
		maxLines = 10
	}
	mk := func() string {
		n := rng.Intn(maxLines)
		var ls []string
		for i := 0; i < n; i++ {
			ls = append(ls, pool[rng.Intn(len(pool))])
		}
		s := strings.Join(ls, "\n")
		if n > 0 && rng.Intn(3) > 0 {
			s += "\n"
		}
		return s
	}
	a, b := mk(), mk()
	if rng.Intn(12) == 0 {
		b = a // a mode-only change or an exact rename reported as a modification: identical blobs
	}
	fd := &items.FileDiff{CleanupDisabled: rng.Intn(2) == 0, WhitespaceIgnore: ws}
	fd.Initialize(nil2())
	h1, h2 := plumbing.NewHash("11"), plumbing.NewHash("22")
	if a == b {
		h2 = h1 // identical contents have one hash
	}
	b1 := &items.CachedBlob{Data: []byte(a)}
	b2 := &items.CachedBlob{Data: []byte(b)}
	cache := map[plumbing.Hash]*items.CachedBlob{h1: b1, h2: b2}
	ch := &object.Change{From: object.ChangeEntry{Name: "f", TreeEntry: object.TreeEntry{Name: "f", Hash: h1}}, To: object.ChangeEntry{Name: "f", TreeEntry: object.TreeEntry{Name: "f", Hash: h2}}}
	res, err := fd.Consume(map[string]interface{}{items.DependencyTreeChanges: object.Changes{ch}, items.DependencyBlobCache: cache})
	if err != nil {
		return err.Error()
	}
	d, present := res[items.DependencyFileDiff].(map[string]items.FileDiffData)["f"]
	if !present {
		return fmt.Sprintf("no diff at all is reported for the modification %q -> %q", a, b)
	}
	l1, _ := b1.CountLines()
	l2, _ := b2.CountLines()
	if d.OldLinesOfCode != l1 || d.NewLinesOfCode != l2 {
		return fmt.Sprintf("line counts %d/%d vs %d/%d for %q %q", d.OldLinesOfCode, d.NewLinesOfCode, l1, l2, a, b)
	}
	split := func(s string) []string {
		if s == "" {
			return nil
		}
		ls := strings.SplitAfter(s, "\n")
		if ls[len(ls)-1] == "" {
			ls = ls[:len(ls)-1]
		}
		return ls
	}
	la, lb := split(a), split(b)
	i, j := 0, 0
	prevType := diffmatchpatch.DiffEqual
	for _, e := range d.Diffs {
		n := len([]rune(e.Text))
		switch e.Type {
		case diffmatchpatch.DiffEqual:
			for k := 0; k < n; k++ {
				if i >= len(la) || j >= len(lb) || la[i] != lb[j] && !(ws && strings.Replace(la[i], " ", "", -1) == strings.Replace(lb[j], " ", "", -1)) {
					return fmt.Sprintf("equal run not equal for %q %q", a, b)
				}
				i++
				j++
			}
		case diffmatchpatch.DiffDelete:
			if prevType != diffmatchpatch.DiffEqual {
				return fmt.Sprintf("shape: delete after non-equal (cleanupDisabled=%v) %q %q", fd.CleanupDisabled, a, b)
			}
			i += n
		case diffmatchpatch.DiffInsert:
			if prevType == diffmatchpatch.DiffInsert {
				return fmt.Sprintf("shape: insert after insert (cleanupDisabled=%v)", fd.CleanupDisabled)
			}
			j += n
		}
		prevType = e.Type
	}
	if i != len(la) || j != len(lb) {
		return "script does not cover"
	}
	return ""
}

func nil2() *gitRepo { return nil }

type gitRepo = gitRepository

func main() {
	log.SetOutput(ioutil.Discard)
	fs := map[string]func(*rand.Rand) string{"c16": c16, "c16mm": c16mm, "c16merge": c16merge, "c16mergeS": c16mergeS, "c19": c19, "c11": c11, "c11ws": c11ws}
	hv.RunOracle(func(cs int64, extra []string) (desc string, class string, m string, tags []string) {
		mode := extra[0]
		classify := func() {
			class = mode
			if mode == "c16mm" {
				tags = []string{"mailmap_plain"}
				if mmChain {
					class, tags = "mailmap-chained-or-conflicting", []string{"mailmap_chained_or_conflicting"}
				}
			}
			if mode == "c16mergeS" {
				class, tags = "c16merge", []string{"lists_well_formed"}
				if sharedWithin {
					class, tags = "token-shared-within-list", []string{"token_shared_within_a_list"}
				}
			}
		}
		desc = fmt.Sprintf(`{"seed":%d,"mode":%q}`, cs, mode)
		defer func() {
			if r := recover(); r != nil {
				m = fmt.Sprintf("PANIC %v", r)
				classify()
			}
		}()
		m = fs[mode](rand.New(rand.NewSource(cs)))
		classify()
		return
	})
}
