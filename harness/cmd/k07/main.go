package main

import (
	"encoding/json"
	"fmt"
	"gopkg.in/src-d/hercules.v10/verifharness/hv"
	"math/rand"
	"strings"

	"gopkg.in/src-d/hercules.v10/internal/burndown"
	"gopkg.in/src-d/hercules.v10/internal/rbtree"
)

func mkFile(alloc *rbtree.Allocator, vals []int, up burndown.Updater) *burndown.File {
	var keys, vs []int
	for i, v := range vals {
		if i == 0 || v != vals[i-1] {
			keys = append(keys, i)
			vs = append(vs, v)
		}
	}
	keys = append(keys, len(vals))
	vs = append(vs, burndown.TreeEnd)
	// NewFileFromTree validates: no TreeMergeMark values allowed (Validate panics on marks) -> build manually
	f := burndown.NewFile(0, 0, alloc, up)
	// start from an empty file and insert runs from the end to the front
	for i := len(vals) - 1; i >= 0; {
		j := i
		for j >= 0 && vals[j] == vals[i] {
			j--
		}
		_ = j
		i = j
	}
	_ = keys
	_ = vs
	return f
}

func flat(f *burndown.File) []int {
	var res []int
	prevLine, prevVal := 0, -2
	f.ForEach(func(line, value int) {
		for i := prevLine; i < line; i++ {
			res = append(res, prevVal)
		}
		prevLine, prevVal = line, value
	})
	return res
}

func join(v []int) string {
	if len(v) == 0 {
		return "-"
	}
	s := make([]string, len(v))
	for i, x := range v {
		s[i] = fmt.Sprint(x)
	}
	return strings.Join(s, ",")
}

func build(alloc *rbtree.Allocator, vals []int, up burndown.Updater) *burndown.File {
	// updates with mark ticks report nothing; build with a silent pass: create empty file then append lines
	f := burndown.NewFile(0, 0, alloc)
	for i, v := range vals {
		f.Update(v, i, 1, 0)
	}
	// attach updater by cloning shallowly into a file that has it: not possible via API; use NewFile with updaters and replay
	g := burndown.NewFile(0, 0, alloc, up)
	_ = g
	return f
}

func main() {
	hvSeed, hvCount, wo, wi, _, hvDone := hv.Args()
	defer hvDone()
	rng := rand.New(rand.NewSource(hvSeed))
	mark := burndown.TreeMergeMark
	for it := 0; it < hvCount; it++ {
		n := rng.Intn(8)
		k := 1 + rng.Intn(4)
		withAuthor := rng.Intn(2) == 0
		gen := func(l int) []int {
			v := make([]int, l)
			for i := range v {
				t := rng.Intn(4)
				if rng.Intn(3) == 0 {
					t = mark
				}
				if withAuthor {
					t |= rng.Intn(3) << 14
				}
				v[i] = t
			}
			return v
		}
		mine := gen(n)
		var others [][]int
		for j := 0; j < k; j++ {
			l := n
			if rng.Intn(30) == 0 {
				l = n + 1
			}
			others = append(others, gen(l))
		}
		day := 5 + rng.Intn(3)
		if withAuthor {
			day |= rng.Intn(3) << 14
		}
		reports := 0
		alloc := rbtree.NewAllocator()
		// build my file with an updater that counts only during Merge
		counting := false
		f := burndown.NewFile(0, 0, alloc, func(cur, prev, delta int) {
			if counting {
				if cur == day && prev == day && delta == 1 {
					reports++
				} else {
					reports += 1000
				}
			}
		})
		for i, v := range mine {
			f.Update(v, i, 1, 0)
		}
		var ofs []*burndown.File
		for _, o := range others {
			of := burndown.NewFile(0, 0, alloc)
			for i, v := range o {
				of.Update(v, i, 1, 0)
			}
			ofs = append(ofs, of)
		}
		var parts []string
		parts = append(parts, fmt.Sprint(day), join(mine))
		for _, o := range others {
			parts = append(parts, join(o))
		}
		fmt.Fprintf(wo, "merge %s\n", strings.Join(parts, " "))
		// Go-side statement of C07 (oracle): per line the earliest copy with the smallest real tick, else the merge
		// commit's tick with one report; unequal lengths are refused
		caseJSON := func() string {
			c, _ := json.Marshal(map[string]interface{}{"day": day, "mine": mine, "others": others})
			return string(c)
		}
		unequal := false
		for _, o := range others {
			if len(o) != n {
				unequal = true
			}
		}
		func() {
			defer func() {
				if recover() != nil {
					fmt.Fprintln(wi, "panic")
					if !unequal {
						hv.Fail("merge-pointwise", caseJSON(), "copies of equal length were refused")
					}
				}
			}()
			counting = true
			f.Merge(day, ofs...)
			counting = false
			res := flat(f)
			if unequal {
				hv.Fail("merge-pointwise", caseJSON(), "copies of different length were merged")
			} else {
				wantReports := 0
				for i := 0; i < n; i++ {
					best, found := 0, false
					for _, c := range append([][]int{mine}, others...) {
						v := c[i]
						if v&mark == mark {
							continue
						}
						if !found || v&mark < best&mark {
							best, found = v, true
						}
					}
					if !found {
						best = day
						wantReports++
					}
					if i >= len(res) || res[i] != best {
						hv.Fail("merge-pointwise", caseJSON(), fmt.Sprintf("line %d: merged %v, the oldest real tick is carried by value %d", i, res, best))
						break
					}
				}
				if len(res) != n {
					hv.Fail("merge-pointwise", caseJSON(), fmt.Sprintf("length %d after merging copies of length %d", len(res), n))
				} else if reports != wantReports {
					hv.Fail("merge-pointwise", caseJSON(), fmt.Sprintf("%d reports for %d all-mark lines", reports, wantReports))
				}
			}
			strs := make([]string, len(res))
			for i, x := range res {
				strs[i] = fmt.Sprint(x)
			}
			fmt.Fprintf(wi, "ok [%s] reports=%d\n", strings.Join(strs, ", "), reports)
		}()
	}
}
