package main

// DevsAnalysis.MergeResults vs. the Lean model on generated results.
import (
	"fmt"
	"math/rand"
	"sort"
	"strings"
	"time"

	"gopkg.in/src-d/hercules.v10/internal/core"
	items "gopkg.in/src-d/hercules.v10/internal/plumbing"
	"gopkg.in/src-d/hercules.v10/internal/plumbing/identity"
	"gopkg.in/src-d/hercules.v10/leaves"
	"gopkg.in/src-d/hercules.v10/verifharness/hv"
)

func show(s string) string {
	if s == "" {
		return "_"
	}
	return s
}

func genDict(rng *rand.Rand, shift int) []string {
	n := 1 + rng.Intn(4)
	used := map[string]bool{}
	var res []string
	for i := 0; i < n; i++ {
		var toks []string
		for k := 1 + rng.Intn(2); k > 0; k-- {
			var t string
			if rng.Intn(2) == 0 {
				t = fmt.Sprintf("n%d", rng.Intn(6)+shift)
			} else {
				t = fmt.Sprintf("e%d@x", rng.Intn(6)+shift)
			}
			if used[t] {
				continue
			}
			used[t] = true
			toks = append(toks, t)
		}
		if len(toks) == 0 {
			toks = []string{fmt.Sprintf("z%d_%d", i, shift)}
		}
		res = append(res, strings.Join(toks, "|"))
	}
	return res
}

func enc(l []string) string {
	if len(l) == 0 {
		return "-"
	}
	return strings.Join(l, ";")
}

func genTicks(rng *rand.Rand, ndev int) map[int]map[int]*leaves.DevTick {
	res := map[int]map[int]*leaves.DevTick{}
	langs := []string{"go", "py", "c"}
	for k := rng.Intn(6); k > 0; k-- {
		tick := rng.Intn(8)
		dev := rng.Intn(ndev)
		if rng.Intn(6) == 0 {
			dev = identity.AuthorMissing
		}
		if res[tick] == nil {
			res[tick] = map[int]*leaves.DevTick{}
		}
		dt := &leaves.DevTick{Commits: rng.Intn(5), LineStats: items.LineStats{Added: rng.Intn(50), Removed: rng.Intn(50), Changed: rng.Intn(50)}, Languages: map[string]items.LineStats{}}
		for _, l := range langs {
			if rng.Intn(2) == 0 {
				dt.Languages[l] = items.LineStats{Added: rng.Intn(20), Removed: rng.Intn(20), Changed: rng.Intn(20)}
			}
		}
		res[tick][dev] = dt
	}
	return res
}

func ls(l items.LineStats) string { return fmt.Sprintf("%d/%d/%d", l.Added, l.Removed, l.Changed) }

func encTicks(t map[int]map[int]*leaves.DevTick) string {
	var ticks []int
	for k := range t {
		ticks = append(ticks, k)
	}
	sort.Ints(ticks)
	var es []string
	for _, tk := range ticks {
		var devs []int
		for d := range t[tk] {
			devs = append(devs, d)
		}
		sort.Ints(devs)
		for _, d := range devs {
			s := t[tk][d]
			var names []string
			for l := range s.Languages {
				names = append(names, l)
			}
			sort.Strings(names)
			var lg []string
			for _, l := range names {
				lg = append(lg, l+"="+ls(s.Languages[l]))
			}
			es = append(es, fmt.Sprintf("%d:%d:%d:%s:%s", tk, d, s.Commits, ls(s.LineStats), strings.Join(lg, ",")))
		}
	}
	if len(es) == 0 {
		return "-"
	}
	return strings.Join(es, ";")
}

func main() {
	seed, count, wo, wi, _, done := hv.Args()
	defer done()
	const epoch = 62135596800
	for it := 0; it < count; it++ {
		rng := rand.New(rand.NewSource(seed + int64(it)))
		shift := 0
		if rng.Intn(3) == 0 {
			shift = 4 // partially overlapping vocabularies
		}
		rd1, rd2 := genDict(rng, 0), genDict(rng, shift)
		tsSec := []int64{86400, 3600 * 7, 1020, 86400 * 30}[rng.Intn(4)]
		b1 := int64(1500000000 + rng.Intn(5000000))
		b2 := b1 + int64(rng.Intn(2000000)) - 1000000
		t1, t2 := genTicks(rng, len(rd1)), genTicks(rng, len(rd2))
		r1 := leaves.VerifNewDevsResult(t1, rd1, tsSec*1e9)
		r2 := leaves.VerifNewDevsResult(t2, rd2, tsSec*1e9)
		fmt.Fprintf(wo, "dev %s %s %d %d %d %s %s\n", enc(rd1), enc(rd2), b1+epoch, b2+epoch, tsSec, encTicks(t1), encTicks(t2))
		da := &leaves.DevsAnalysis{}
		m := da.MergeResults(r1, r2, &core.CommonAnalysisResult{BeginTime: b1}, &core.CommonAnalysisResult{BeginTime: b2}).(leaves.DevsResult)
		var ss []string
		for _, s := range leaves.VerifDevsDict(m) {
			ss = append(ss, show(s))
		}
		out := encTicks(m.Ticks)
		if out == "-" {
			out = ""
		}
		fmt.Fprintf(wi, "%s # %s\n", strings.Join(ss, ";"), strings.ReplaceAll(out, ";", " "))
		// Go-side statement of C18 for developer statistics (oracle): records add up per absolute tick period and
		// merged developer; tick periods are counted from the zero time (time.Truncate)
		{
			ts := time.Duration(tsSec) * time.Second
			s1, s2 := time.Unix(b1, 0).Truncate(ts), time.Unix(b2, 0).Truncate(ts)
			s0 := s1
			if s2.Before(s0) {
				s0 = s2
			}
			people, _ := identity.MergeReversedDictsIdentities(rd1, rd2)
			want := map[int]map[int]*leaves.DevTick{}
			add := func(ticks map[int]map[int]*leaves.DevTick, rd []string, start time.Time) {
				off := int(start.Sub(s0) / ts)
				for tk, dd := range ticks {
					for dev, st := range dd {
						nd := dev
						if dev != identity.AuthorMissing {
							nd = people[rd[dev]].Final
						}
						if want[tk+off] == nil {
							want[tk+off] = map[int]*leaves.DevTick{}
						}
						w := want[tk+off][nd]
						if w == nil {
							w = &leaves.DevTick{Languages: map[string]items.LineStats{}}
							want[tk+off][nd] = w
						}
						w.Commits += st.Commits
						w.Added += st.Added
						w.Removed += st.Removed
						w.Changed += st.Changed
						for l, x := range st.Languages {
							p := w.Languages[l]
							w.Languages[l] = items.LineStats{Added: p.Added + x.Added, Removed: p.Removed + x.Removed, Changed: p.Changed + x.Changed}
						}
					}
				}
			}
			add(t1, rd1, s1)
			add(t2, rd2, s2)
			if encTicks(want) != encTicks(m.Ticks) {
				hv.Fail("devs-merge", fmt.Sprintf(`{"rd1":%q,"rd2":%q,"begin1":%d,"begin2":%d,"tick_s":%d,"ticks1":%q,"ticks2":%q}`, enc(rd1), enc(rd2), b1, b2, tsSec, encTicks(t1), encTicks(t2)),
					"merged records "+encTicks(m.Ticks)+", per aligned tick and merged developer the inputs add up to "+encTicks(want))
			}
		}
	}
}
