package main

// DevsAnalysis.MergeResults vs. the Lean model on generated results.
import (
	"bufio"
	"fmt"
	"math/rand"
	"os"
	"sort"
	"strconv"
	"strings"

	"gopkg.in/src-d/hercules.v10/internal/core"
	items "gopkg.in/src-d/hercules.v10/internal/plumbing"
	"gopkg.in/src-d/hercules.v10/internal/plumbing/identity"
	"gopkg.in/src-d/hercules.v10/leaves"
)

func show(s string) string {
	if s == "" {
		return "_"
	}
	return s
}

func genDict(rng *rand.Rand, shift int) []string {
	n := 1 + rng.Intn(4)
	used := map[string]bool{}
	var res []string
	for i := 0; i < n; i++ {
		var toks []string
		for k := 1 + rng.Intn(2); k > 0; k-- {
			var t string
			if rng.Intn(2) == 0 {
				t = fmt.Sprintf("n%d", rng.Intn(6)+shift)
			} else {
				t = fmt.Sprintf("e%d@x", rng.Intn(6)+shift)
			}
			if used[t] {
				continue
			}
			used[t] = true
			toks = append(toks, t)
		}
		if len(toks) == 0 {
			toks = []string{fmt.Sprintf("z%d_%d", i, shift)}
		}
		res = append(res, strings.Join(toks, "|"))
	}
	return res
}

func enc(l []string) string {
	if len(l) == 0 {
		return "-"
	}
	return strings.Join(l, ";")
}

func genTicks(rng *rand.Rand, ndev int) map[int]map[int]*leaves.DevTick {
	res := map[int]map[int]*leaves.DevTick{}
	langs := []string{"go", "py", "c"}
	for k := rng.Intn(6); k > 0; k-- {
		tick := rng.Intn(8)
		dev := rng.Intn(ndev)
		if rng.Intn(6) == 0 {
			dev = identity.AuthorMissing
		}
		if res[tick] == nil {
			res[tick] = map[int]*leaves.DevTick{}
		}
		dt := &leaves.DevTick{Commits: rng.Intn(5), LineStats: items.LineStats{Added: rng.Intn(50), Removed: rng.Intn(50), Changed: rng.Intn(50)}, Languages: map[string]items.LineStats{}}
		for _, l := range langs {
			if rng.Intn(2) == 0 {
				dt.Languages[l] = items.LineStats{Added: rng.Intn(20), Removed: rng.Intn(20), Changed: rng.Intn(20)}
			}
		}
		res[tick][dev] = dt
	}
	return res
}

func ls(l items.LineStats) string { return fmt.Sprintf("%d/%d/%d", l.Added, l.Removed, l.Changed) }

func encTicks(t map[int]map[int]*leaves.DevTick) string {
	var ticks []int
	for k := range t {
		ticks = append(ticks, k)
	}
	sort.Ints(ticks)
	var es []string
	for _, tk := range ticks {
		var devs []int
		for d := range t[tk] {
			devs = append(devs, d)
		}
		sort.Ints(devs)
		for _, d := range devs {
			s := t[tk][d]
			var names []string
			for l := range s.Languages {
				names = append(names, l)
			}
			sort.Strings(names)
			var lg []string
			for _, l := range names {
				lg = append(lg, l+"="+ls(s.Languages[l]))
			}
			es = append(es, fmt.Sprintf("%d:%d:%d:%s:%s", tk, d, s.Commits, ls(s.LineStats), strings.Join(lg, ",")))
		}
	}
	if len(es) == 0 {
		return "-"
	}
	return strings.Join(es, ";")
}

func main() {
	seed, _ := strconv.ParseInt(os.Args[1], 10, 64)
	count, _ := strconv.Atoi(os.Args[2])
	ops, _ := os.Create(os.Args[3])
	impl, _ := os.Create(os.Args[4])
	wo, wi := bufio.NewWriter(ops), bufio.NewWriter(impl)
	defer wo.Flush()
	defer wi.Flush()
	const epoch = 62135596800
	for it := 0; it < count; it++ {
		rng := rand.New(rand.NewSource(seed + int64(it)))
		shift := 0
		if rng.Intn(3) == 0 {
			shift = 4 // partially overlapping vocabularies
		}
		rd1, rd2 := genDict(rng, 0), genDict(rng, shift)
		tsSec := []int64{86400, 3600 * 7, 1020, 86400 * 30}[rng.Intn(4)]
		b1 := int64(1500000000 + rng.Intn(5000000))
		b2 := b1 + int64(rng.Intn(2000000)) - 1000000
		t1, t2 := genTicks(rng, len(rd1)), genTicks(rng, len(rd2))
		r1 := leaves.VerifNewDevsResult(t1, rd1, tsSec*1e9)
		r2 := leaves.VerifNewDevsResult(t2, rd2, tsSec*1e9)
		fmt.Fprintf(wo, "dev %s %s %d %d %d %s %s\n", enc(rd1), enc(rd2), b1+epoch, b2+epoch, tsSec, encTicks(t1), encTicks(t2))
		da := &leaves.DevsAnalysis{}
		m := da.MergeResults(r1, r2, &core.CommonAnalysisResult{BeginTime: b1}, &core.CommonAnalysisResult{BeginTime: b2}).(leaves.DevsResult)
		var ss []string
		for _, s := range leaves.VerifDevsDict(m) {
			ss = append(ss, show(s))
		}
		out := encTicks(m.Ticks)
		if out == "-" {
			out = ""
		}
		fmt.Fprintf(wi, "%s # %s\n", strings.Join(ss, ";"), strings.ReplaceAll(out, ";", " "))
	}
}
