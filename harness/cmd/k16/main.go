package main

import (
	"fmt"
	"gopkg.in/src-d/hercules.v10/verifharness/hv"
	"io/ioutil"
	"log"
	"math/rand"
	"sort"
	"strings"

	"gopkg.in/src-d/go-git.v4"
	"gopkg.in/src-d/go-git.v4/plumbing/object"
	"gopkg.in/src-d/go-git.v4/storage/memory"
	"gopkg.in/src-d/hercules.v10/internal/core"
	"gopkg.in/src-d/hercules.v10/internal/plumbing/identity"
)

func main() {
	log.SetOutput(ioutil.Discard)
	hvSeed, hvCount, wo, wi, _, hvDone := hv.Args()
	defer hvDone()
	rng := rand.New(rand.NewSource(hvSeed))
	names := []string{"Ann", "ann", "Bob", "BOB", "carl", "", "Dee", "a@x"}
	mails := []string{"a@x", "A@X", "b@x", "c@x", "", "d@y", "ann"}
	tok := map[string]int{}
	tokOf := func(s string) int {
		s = strings.ToLower(s)
		if _, ok := tok[s]; !ok {
			tok[s] = len(tok) + 1
		}
		return tok[s]
	}
	st := memory.NewStorage()
	repo, _ := git.Init(st, nil)
	eo := st.NewEncodedObject()
	(&object.Tree{}).Encode(eo)
	th, _ := st.SetEncodedObject(eo)
	for it := 0; it < hvCount; it++ {
		n := 1 + rng.Intn(9)
		var commits []*object.Commit
		var enc []string
		for i := 0; i < n; i++ {
			nm, em := names[rng.Intn(len(names))], mails[rng.Intn(len(mails))]
			cm := &object.Commit{Author: object.Signature{Name: nm, Email: em}, Message: fmt.Sprint(it, i), TreeHash: th}
			o := st.NewEncodedObject()
			cm.Encode(o)
			h, _ := st.SetEncodedObject(o)
			c, _ := repo.CommitObject(h)
			commits = append(commits, c)
			enc = append(enc, fmt.Sprintf("%d:%d", tokOf(nm), tokOf(em)))
		}
		d := &identity.Detector{}
		d.GeneratePeopleDict(commits)
		var ids []string
		for _, c := range commits {
			r, _ := d.Consume(map[string]interface{}{core.DependencyCommit: c})
			ids = append(ids, fmt.Sprint(r[identity.DependencyAuthor].(int)))
		}
		fmt.Fprintf(wo, "gen %s\n", strings.Join(enc, " "))
		// descriptions: the tokens listed for each developer (names and e-mails), as a sorted multiset
		var ds []string
		for _, desc := range d.ReversedPeopleDict {
			var toks []int
			for _, part := range strings.Split(desc, "|") {
				toks = append(toks, tokOf(part))
			}
			sort.Ints(toks)
			var ts []string
			for _, t := range toks {
				ts = append(ts, fmt.Sprint(t))
			}
			ds = append(ds, strings.Join(ts, ","))
		}
		fmt.Fprintf(wi, "%d [%s] %s\n", len(d.ReversedPeopleDict), strings.Join(ids, ", "), strings.Join(ds, ";"))
	}
}
