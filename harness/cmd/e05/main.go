package main

import (
	"fmt"
	"gopkg.in/src-d/hercules.v10/verifharness/hv"
	"math/rand"
	"os"
	"reflect"
	"sort"

	"gopkg.in/src-d/hercules.v10/internal/rbtree"
)

type ref struct {
	m      map[uint32]uint32
	nodeOf map[uint32]uint32 // key -> node index (iterator stability)
}

func keys(m map[uint32]uint32) []uint32 {
	var ks []uint32
	for k := range m {
		ks = append(ks, k)
	}
	sort.Slice(ks, func(i, j int) bool { return ks[i] < ks[j] })
	return ks
}

func run(seed int64) (msg string) {
	defer func() {
		if r := recover(); r != nil {
			msg = fmt.Sprintf("PANIC %v", r)
		}
	}()
	rng := rand.New(rand.NewSource(seed))
	alloc := rbtree.NewAllocator()
	alloc.HibernationThreshold = rng.Intn(20)
	nt := 1 + rng.Intn(3)
	trees := make([]*rbtree.RBTree, nt)
	refs := make([]*ref, nt)
	for i := range trees {
		trees[i] = rbtree.NewRBTree(alloc)
		refs[i] = &ref{map[uint32]uint32{}, map[uint32]uint32{}}
	}
	keyRange := uint32(8 + rng.Intn(40))
	nops := 20 + rng.Intn(200)
	for op := 0; op < nops; op++ {
		ti := rng.Intn(nt)
		t, r := trees[ti], refs[ti]
		k := uint32(rng.Intn(int(keyRange)))
		switch rng.Intn(12) {
		case 0, 1, 2, 3:
			v := rng.Uint32()
			ok, it := t.Insert(rbtree.Item{Key: k, Value: v})
			_, had := r.m[k]
			if ok == had {
				return fmt.Sprintf("insert flag wrong")
			}
			if ok {
				r.m[k] = v
				r.nodeOf[k] = it.VerifNodeOf()
				if it.Item().Key != k {
					return "insert iterator wrong"
				}
			}
		case 4, 5:
			ok := t.DeleteWithKey(k)
			_, had := r.m[k]
			if ok != had {
				return "delete flag wrong"
			}
			delete(r.m, k)
			delete(r.nodeOf, k)
		case 6:
			it := t.FindGE(k)
			if !it.Limit() {
				kk := it.Item().Key
				t.DeleteWithIterator(it)
				delete(r.m, kk)
				delete(r.nodeOf, kk)
			}
		case 7:
			it := t.FindGE(k)
			ks := keys(r.m)
			i := sort.Search(len(ks), func(i int) bool { return ks[i] >= k })
			if i == len(ks) {
				if !it.Limit() {
					return "FindGE should be limit"
				}
			} else if it.Limit() || it.Item().Key != ks[i] {
				return "FindGE wrong"
			}
			it2 := t.FindLE(k)
			j := sort.Search(len(ks), func(i int) bool { return ks[i] > k }) - 1
			if j < 0 {
				if !it2.NegativeLimit() {
					return "FindLE should be neglimit"
				}
			} else if it2.NegativeLimit() || it2.Item().Key != ks[j] {
				return "FindLE wrong"
			}
			g := t.Get(k)
			if v, ok := r.m[k]; ok != (g != nil) || (ok && *g != v) {
				return "Get wrong"
			}
		case 8:
			// forward / backward iteration
			ks := keys(r.m)
			i := 0
			for it := t.Min(); !it.Limit(); it = it.Next() {
				if i >= len(ks) || it.Item().Key != ks[i] {
					return "forward iteration wrong"
				}
				i++
			}
			if i != len(ks) {
				return "forward iteration short"
			}
			i = len(ks) - 1
			for it := t.Max(); !it.NegativeLimit(); it = it.Prev() {
				if i < 0 || it.Item().Key != ks[i] {
					return "backward iteration wrong"
				}
				i--
			}
			if i != -1 {
				return "backward short"
			}
		case 9:
			if rng.Intn(6) == 0 {
				t.Erase()
				r.m = map[uint32]uint32{}
				r.nodeOf = map[uint32]uint32{}
			}
		case 10:
			// hibernate/boot roundtrip, optionally through a file
			before, gapsB := alloc.VerifSnapshot()
			alloc.Hibernate()
			if rng.Intn(2) == 0 && alloc.Size() == 0 && len(before) > 0 {
				f, _ := os.CreateTemp("", "hvalloc")
				f.Close()
				defer os.Remove(f.Name())
				if err := alloc.Serialize(f.Name()); err != nil {
					return "serialize err " + err.Error()
				}
				if err := alloc.Deserialize(f.Name()); err != nil {
					return "deserialize err " + err.Error()
				}
				os.Remove(f.Name())
			}
			alloc.Boot()
			after, gapsA := alloc.VerifSnapshot()
			if !reflect.DeepEqual(before, after) || !reflect.DeepEqual(gapsB, gapsA) {
				return "hibernate/boot changed storage"
			}
		case 11:
			// clone independence
			cl := alloc.Clone()
			tc := t.CloneShallow(cl)
			snapB, gB := alloc.VerifSnapshot()
			for x := 0; x < 5; x++ {
				kk := uint32(rng.Intn(int(keyRange)))
				if rng.Intn(2) == 0 {
					tc.Insert(rbtree.Item{Key: kk, Value: 7})
				} else {
					tc.DeleteWithKey(kk)
				}
			}
			snapA, gA := alloc.VerifSnapshot()
			if !reflect.DeepEqual(snapB, snapA) || !reflect.DeepEqual(gB, gA) {
				return "clone mutated original"
			}
			if _, _, err := tc.VerifCheck(); err != nil {
				return "clone tree invalid: " + err.Error()
			}
		}
		// invariants for all trees; disjointness; used count
		all := map[uint32]bool{}
		total := 0
		for i, tt := range trees {
			items, nodes, err := tt.VerifCheck()
			if err != nil {
				return fmt.Sprintf("op %d tree %d: %v", op, i, err)
			}
			ks := keys(refs[i].m)
			if len(items) != len(ks) {
				return "content size mismatch"
			}
			for j, itx := range items {
				if itx.Key != ks[j] || itx.Value != refs[i].m[ks[j]] {
					return "content mismatch"
				}
			}
			for n := range nodes {
				if all[n] {
					return "node shared between trees"
				}
				all[n] = true
			}
			total += len(items)
			// iterator stability
			st, _ := alloc.VerifSnapshot()
			for kk, n := range refs[i].nodeOf {
				if st[n].Key != kk {
					return fmt.Sprintf("iterator to key %d moved", kk)
				}
				if !nodes[n] {
					return "iterator node not in tree"
				}
			}
		}
		if alloc.Size() > 0 && alloc.Used() != total+1 {
			return fmt.Sprintf("Used %d vs live %d+1", alloc.Used(), total)
		}
	}
	return ""
}

func main() {
	hv.RunOracle(func(cs int64, extra []string) (string, string, string, []string) {
		return fmt.Sprintf(`{"seed":%d}`, cs), "rbtree-allocator", run(cs), nil
	})
}
