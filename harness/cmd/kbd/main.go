package main

// BurndownAnalysis.Consume (one branch, non-merge commits) vs. the Lean interpreter model.
import (
	"bufio"
	"fmt"
	"math/rand"
	"os"
	"sort"
	"strconv"
	"strings"
	"time"

	"github.com/sergi/go-diff/diffmatchpatch"
	"gopkg.in/src-d/go-git.v4/plumbing"
	"gopkg.in/src-d/go-git.v4/plumbing/object"
	"gopkg.in/src-d/hercules.v10/internal/core"
	items "gopkg.in/src-d/hercules.v10/internal/plumbing"
	"gopkg.in/src-d/hercules.v10/internal/plumbing/identity"
	"gopkg.in/src-d/hercules.v10/leaves"
)

const missing = (1 << 18) - 2

func blob(rng *rand.Rand, cache map[plumbing.Hash]*items.CachedBlob, lines int) plumbing.Hash {
	var h plumbing.Hash
	rng.Read(h[:])
	data := []byte(strings.Repeat("x\n", lines))
	cache[h] = &items.CachedBlob{Blob: object.Blob{Hash: h, Size: int64(len(data))}, Data: data}
	return h
}

func entry(name string, h plumbing.Hash) object.ChangeEntry {
	return object.ChangeEntry{Name: name, TreeEntry: object.TreeEntry{Name: name, Mode: 0100644, Hash: h}}
}

func classify(err error) string {
	m := err.Error()
	switch {
	case strings.Contains(m, "already exists"):
		return "file already exists"
	case strings.Contains(m, "integrity error src"):
		return "integrity src"
	case strings.Contains(m, "integrity error dst"):
		return "integrity dst"
	case strings.Contains(m, "DiffInsert may not"):
		return "DiffInsert may not appear after DiffInsert"
	case strings.Contains(m, "DiffDelete may not"):
		return "DiffDelete may not appear after DiffInsert/DiffDelete"
	}
	return m
}

func obs(ba *leaves.BurndownAnalysis) string {
	files, g, p, m := leaves.VerifBurndownState(ba)
	var names []int
	for n := range files {
		k, _ := strconv.Atoi(n[1:])
		names = append(names, k)
	}
	sort.Ints(names)
	var fs []string
	for _, n := range names {
		var ns []string
		for _, nd := range files[fmt.Sprintf("f%d", n)] {
			if nd[1] == -1 {
				ns = append(ns, fmt.Sprintf("%d:E", nd[0]))
			} else {
				ns = append(ns, fmt.Sprintf("%d:%d", nd[0], nd[1]))
			}
		}
		fs = append(fs, fmt.Sprintf("f%d= %s", n, strings.Join(ns, " ")))
	}
	var gs, ps, ms []string
	var cs []int
	for c := range g {
		cs = append(cs, c)
	}
	sort.Ints(cs)
	for _, c := range cs {
		var bs []int
		for b := range g[c] {
			bs = append(bs, b)
		}
		sort.Ints(bs)
		for _, b := range bs {
			gs = append(gs, fmt.Sprintf("%d/%d=%d", c, b, g[c][b]))
		}
	}
	for a, h := range p {
		var cs []int
		for c := range h {
			cs = append(cs, c)
		}
		sort.Ints(cs)
		for _, c := range cs {
			var bs []int
			for b := range h[c] {
				bs = append(bs, b)
			}
			sort.Ints(bs)
			for _, b := range bs {
				ps = append(ps, fmt.Sprintf("%d/%d/%d=%d", a, c, b, h[c][b]))
			}
		}
	}
	for o, row := range m {
		var ns []int
		for n := range row {
			ns = append(ns, n)
		}
		sort.Ints(ns)
		for _, n := range ns {
			ms = append(ms, fmt.Sprintf("%d/%d=%d", o, n, row[n]))
		}
	}
	return fmt.Sprintf("%s | G %s P %s M %s", strings.Join(fs, " ; "), strings.Join(gs, " "), strings.Join(ps, " "), strings.Join(ms, " "))
}

func main() {
	seed, _ := strconv.ParseInt(os.Args[1], 10, 64)
	count, _ := strconv.Atoi(os.Args[2])
	ops, _ := os.Create(os.Args[3])
	impl, _ := os.Create(os.Args[4])
	wo, wi := bufio.NewWriter(ops), bufio.NewWriter(impl)
	defer wo.Flush()
	defer wi.Flush()
	stats := map[string]int{}
	for it := 0; it < count; it++ {
		rng := rand.New(rand.NewSource(seed + int64(it)))
		pn := rng.Intn(4)
		ba := &leaves.BurndownAnalysis{Granularity: 30, Sampling: 30, PeopleNumber: pn, TickSize: 24 * time.Hour}
		ba.Initialize(nil)
		fmt.Fprintf(wo, "init %d\n", pn)
		fmt.Fprintln(wi, "ok")
		lens := map[int]int{} // ground truth: file -> current length
		tick := 0
		failed := false
		for c := 0; c < 2+rng.Intn(6) && !failed; c++ {
			tick += rng.Intn(3)
			author := missing
			if pn > 0 && rng.Intn(8) != 0 {
				author = rng.Intn(pn)
			}
			fmt.Fprintf(wo, "begin %d %d\n", tick, author)
			fmt.Fprintln(wi, "ok")
			for k := 1 + rng.Intn(3); k > 0 && !failed; k-- {
				f := rng.Intn(4)
				if rng.Intn(4) == 0 {
					f = rng.Intn(8) // f4..f7 come into being through renames
				}
				name := fmt.Sprintf("f%d", f)
				cache := map[plumbing.Hash]*items.CachedBlob{}
				diffs := map[string]items.FileDiffData{}
				var ch *object.Change
				cur, exists := lens[f]
				r := rng.Intn(10)
				var opline string
				switch {
				case !exists && r < 8 || exists && r == 0:
					n := rng.Intn(6)
					ch = &object.Change{To: entry(name, blob(rng, cache, n))}
					opline = fmt.Sprintf("add %d %d", f, n)
					if !exists {
						lens[f] = n
					}
				case r == 1 || !exists:
					n := cur
					if rng.Intn(6) == 0 {
						n = rng.Intn(8)
					}
					ch = &object.Change{From: entry(name, blob(rng, cache, n))}
					opline = fmt.Sprintf("rm %d %d", f, n)
					delete(lens, f)
				default:
					// canonical script over `cur` lines, sometimes broken
					var script []string
					var dd []diffmatchpatch.Diff
					add := func(t diffmatchpatch.Operation, c byte, n int) {
						script = append(script, fmt.Sprintf("%c%d", c, n))
						dd = append(dd, diffmatchpatch.Diff{Type: t, Text: strings.Repeat("a", n)})
					}
					left := cur
					newLen := 0
					for left > 0 || rng.Intn(3) == 0 {
						if left > 0 && rng.Intn(2) == 0 {
							n := 1 + rng.Intn(left)
							add(diffmatchpatch.DiffEqual, 'e', n)
							left -= n
							newLen += n
						}
						if left > 0 && rng.Intn(2) == 0 {
							n := 1 + rng.Intn(left)
							add(diffmatchpatch.DiffDelete, 'd', n)
							left -= n
						}
						if rng.Intn(2) == 0 {
							n := 1 + rng.Intn(3)
							add(diffmatchpatch.DiffInsert, 'i', n)
							newLen += n
						}
						if rng.Intn(40) == 0 && left > 0 { // broken: delete right after an insert
							add(diffmatchpatch.DiffDelete, 'd', 1)
							left--
						}
						if len(script) > 12 {
							break
						}
					}
					if left > 0 {
						add(diffmatchpatch.DiffEqual, 'e', left)
						newLen += left
					}
					oldL := cur
					if rng.Intn(25) == 0 {
						oldL = cur + 1
					}
					declNew := newLen
					if rng.Intn(25) == 0 {
						declNew++
					}
					sc := strings.Join(script, ",")
					if sc == "" {
						sc = "-"
					}
					if rng.Intn(6) == 0 {
						// the same edit reported under a new name (a rename with changes); now and then onto a name that is
						// tracked already, which the real code overwrites
						to := 4 + rng.Intn(4)
						if rng.Intn(8) == 0 {
							to = (f + 1) % 4
						}
						toName := fmt.Sprintf("f%d", to)
						ch = &object.Change{From: entry(name, blob(rng, cache, oldL)), To: entry(toName, blob(rng, cache, declNew))}
						diffs[toName] = items.FileDiffData{OldLinesOfCode: oldL, NewLinesOfCode: declNew, Diffs: dd}
						opline = fmt.Sprintf("ren %d %d %d %d %s", f, to, oldL, declNew, sc)
						delete(lens, f)
						lens[to] = newLen
						break
					}
					ch = &object.Change{From: entry(name, blob(rng, cache, oldL)), To: entry(name, blob(rng, cache, declNew))}
					diffs[name] = items.FileDiffData{OldLinesOfCode: oldL, NewLinesOfCode: declNew, Diffs: dd}
					opline = fmt.Sprintf("mod %d %d %d %s", f, oldL, declNew, sc)
					lens[f] = newLen
				}
				fmt.Fprintln(wo, opline)
				deps := map[string]interface{}{
					core.DependencyCommit:       &object.Commit{},
					core.DependencyIsMerge:      false,
					identity.DependencyAuthor:   author,
					items.DependencyTick:        tick,
					items.DependencyBlobCache:   cache,
					items.DependencyTreeChanges: object.Changes{ch},
					items.DependencyFileDiff:    diffs,
				}
				func() {
					defer func() {
						if r := recover(); r != nil {
							failed = true
							stats["panic"]++
							fmt.Fprintln(wi, "err panic")
						}
					}()
					_, err := ba.Consume(deps)
					if err != nil {
						failed = true
						cl := classify(err)
						stats[cl]++
						fmt.Fprintf(wi, "err %s\n", cl)
						return
					}
					stats[strings.Fields(opline)[0]]++
					fmt.Fprintln(wi, "ok")
				}()
			}
			if !failed {
				fmt.Fprintln(wo, "obs")
				fmt.Fprintln(wi, obs(ba))
			}
		}
	}
	fmt.Fprintln(os.Stderr, stats)
}
