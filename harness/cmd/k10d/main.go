// k10d: Pipeline.DeployItem on the synthetic registry of e10s, against the Lean model Dp.deploy (C10).
// ops: dep <registry> <features set> <names present> <leaf>     registry/leaf item = name:provides:requires:features
// (lists joined by +, `-` = empty); impl: the names DeployItem added, in order.
package main

import (
	"fmt"
	"io/ioutil"
	"log"
	"math/rand"
	"os"
	"strings"

	"gopkg.in/src-d/go-git.v4"
	"gopkg.in/src-d/go-git.v4/storage/memory"
	"gopkg.in/src-d/hercules.v10/internal/core"
	"gopkg.in/src-d/hercules.v10/verifharness/hv"
)

// per-case requirement table, by item name
var reqs = map[string][]string{}

type base struct{}

func (base) ListConfigurationOptions() []core.ConfigurationOption { return nil }
func (base) Configure(map[string]interface{}) error               { return nil }
func (base) Initialize(*git.Repository) error                     { return nil }
func (base) Consume(map[string]interface{}) (map[string]interface{}, error) {
	return map[string]interface{}{}, nil
}
func (base) Merge([]core.PipelineItem) {}

type P0 struct{ base }

func (*P0) Name() string                     { return "P0" }
func (*P0) Provides() []string               { return []string{"x0"} }
func (*P0) Requires() []string               { return reqs["P0"] }
func (x *P0) Fork(n int) []core.PipelineItem { return core.ForkSamePipelineItem(x, n) }
func (*P0) Features() []string               { return []string{"f0"} }

type P1 struct{ base }

func (*P1) Name() string                     { return "P1" }
func (*P1) Provides() []string               { return []string{"x0"} }
func (*P1) Requires() []string               { return reqs["P1"] }
func (x *P1) Fork(n int) []core.PipelineItem { return core.ForkSamePipelineItem(x, n) }

type P2 struct{ base }

func (*P2) Name() string                     { return "P2" }
func (*P2) Provides() []string               { return []string{"x1"} }
func (*P2) Requires() []string               { return reqs["P2"] }
func (x *P2) Fork(n int) []core.PipelineItem { return core.ForkSamePipelineItem(x, n) }

type P3 struct{ base }

func (*P3) Name() string                     { return "P3" }
func (*P3) Provides() []string               { return []string{"x1"} }
func (*P3) Requires() []string               { return reqs["P3"] }
func (x *P3) Fork(n int) []core.PipelineItem { return core.ForkSamePipelineItem(x, n) }
func (*P3) Features() []string               { return []string{"f1"} }

type P4 struct{ base }

func (*P4) Name() string                     { return "P4" }
func (*P4) Provides() []string               { return []string{"x2"} }
func (*P4) Requires() []string               { return reqs["P4"] }
func (x *P4) Fork(n int) []core.PipelineItem { return core.ForkSamePipelineItem(x, n) }
func (*P4) Features() []string               { return []string{"f0"} }

type P5 struct{ base }

func (*P5) Name() string                     { return "P5" }
func (*P5) Provides() []string               { return []string{"x2"} }
func (*P5) Requires() []string               { return reqs["P5"] }
func (x *P5) Fork(n int) []core.PipelineItem { return core.ForkSamePipelineItem(x, n) }
func (*P5) Features() []string               { return []string{"f1"} }

type P6 struct{ base }

func (*P6) Name() string                     { return "P6" }
func (*P6) Provides() []string               { return []string{"x2"} }
func (*P6) Requires() []string               { return reqs["P6"] }
func (x *P6) Fork(n int) []core.PipelineItem { return core.ForkSamePipelineItem(x, n) }

type P7 struct{ base }

func (*P7) Name() string                     { return "P7" }
func (*P7) Provides() []string               { return []string{"x3"} }
func (*P7) Requires() []string               { return reqs["P7"] }
func (x *P7) Fork(n int) []core.PipelineItem { return core.ForkSamePipelineItem(x, n) }

type P8 struct{ base }

func (*P8) Name() string                     { return "P8" }
func (*P8) Provides() []string               { return []string{"x4"} }
func (*P8) Requires() []string               { return reqs["P8"] }
func (x *P8) Fork(n int) []core.PipelineItem { return core.ForkSamePipelineItem(x, n) }

type P9 struct{ base }

func (*P9) Name() string                     { return "P9" }
func (*P9) Provides() []string               { return []string{"x3"} }
func (*P9) Requires() []string               { return reqs["P9"] }
func (x *P9) Fork(n int) []core.PipelineItem { return core.ForkSamePipelineItem(x, n) }
func (*P9) Features() []string               { return []string{"f2"} }

type PA struct{ base }

func (*PA) Name() string                     { return "PA" }
func (*PA) Provides() []string               { return []string{"x5"} }
func (*PA) Requires() []string               { return reqs["PA"] }
func (x *PA) Fork(n int) []core.PipelineItem { return core.ForkSamePipelineItem(x, n) }
func (*PA) Features() []string               { return []string{"f2"} }

type PB struct{ base }

func (*PB) Name() string                     { return "PB" }
func (*PB) Provides() []string               { return []string{"x5"} }
func (*PB) Requires() []string               { return reqs["PB"] }
func (x *PB) Fork(n int) []core.PipelineItem { return core.ForkSamePipelineItem(x, n) }
func (*PB) Features() []string               { return []string{"f0"} }

type L0 struct{ base }

func (*L0) Name() string                     { return "L0" }
func (*L0) Provides() []string               { return []string{} }
func (*L0) Requires() []string               { return reqs["L0"] }
func (x *L0) Fork(n int) []core.PipelineItem { return core.ForkSamePipelineItem(x, n) }

type L1 struct{ base }

func (*L1) Name() string                     { return "L1" }
func (*L1) Provides() []string               { return []string{} }
func (*L1) Requires() []string               { return reqs["L1"] }
func (x *L1) Fork(n int) []core.PipelineItem { return core.ForkSamePipelineItem(x, n) }
func (*L1) Features() []string               { return []string{"f1"} }

type L2 struct{ base }

func (*L2) Name() string                     { return "L2" }
func (*L2) Provides() []string               { return []string{} }
func (*L2) Requires() []string               { return reqs["L2"] }
func (x *L2) Fork(n int) []core.PipelineItem { return core.ForkSamePipelineItem(x, n) }
func (*L2) Features() []string               { return []string{"f0", "f2"} }

func feats(it core.PipelineItem) []string {
	if f, ok := it.(core.FeaturedPipelineItem); ok {
		return f.Features()
	}
	return nil
}

var nameNo = map[string]int{"L0": 100, "L1": 101, "L2": 102}

func num(s string) string { return s[1:] }

func enc(it core.PipelineItem) string {
	l := func(xs []string) string {
		if len(xs) == 0 {
			return "-"
		}
		var o []string
		for _, x := range xs {
			o = append(o, num(x))
		}
		return strings.Join(o, "+")
	}
	return fmt.Sprintf("%d:%s:%s:%s", nameNo[it.Name()], l(it.Provides()), l(it.Requires()), l(feats(it)))
}

func main() {
	log.SetOutput(ioutil.Discard)
	devnull, _ := os.OpenFile(os.DevNull, os.O_WRONLY, 0)
	os.Stderr = devnull
	seed, count, wo, wi, _, done := hv.Args()
	defer done()
	plumbing := []core.PipelineItem{&P0{}, &P1{}, &P2{}, &P3{}, &P4{}, &P5{}, &P6{}, &P7{}, &P8{}, &P9{}, &PA{}, &PB{}}
	for i, p := range plumbing {
		core.Registry.Register(p)
		nameNo[p.Name()] = i
	}
	repo, _ := git.Init(memory.NewStorage(), nil)
	entities := []string{"x0", "x1", "x2", "x3", "x4", "x5"}
	names := []string{"P0", "P1", "P2", "P3", "P4", "P5", "P6", "P7", "P8", "P9", "PA", "PB", "L0", "L1", "L2"}
	for it := 0; it < count; it++ {
		rng := rand.New(rand.NewSource(seed*1000003 + int64(it)))
		reqs = map[string][]string{}
		for _, n := range names {
			var r []string
			for k := rng.Intn(3); k > 0; k-- {
				e := entities[rng.Intn(len(entities))]
				dup := false
				for _, x := range r {
					if x == e {
						dup = true
					}
				}
				if !dup {
					r = append(r, e)
				}
			}
			reqs[n] = r
		}
		p := core.NewPipeline(repo)
		enabled := map[string]bool{}
		for _, f := range []string{"f0", "f1", "f2"} {
			if rng.Intn(3) == 0 {
				p.SetFeature(f)
				enabled[f] = true
			}
		}
		var regs []string
		for _, q := range plumbing {
			regs = append(regs, enc(q))
		}
		for _, li := range rng.Perm(3)[:1+rng.Intn(3)] {
			var leaf core.PipelineItem
			switch li {
			case 0:
				leaf = &L0{}
			case 1:
				leaf = &L1{}
			default:
				leaf = &L2{}
			}
			var fs, present []string
			for _, f := range []string{"f0", "f1", "f2"} {
				if enabled[f] {
					fs = append(fs, num(f))
				}
			}
			before := p.VerifItems()
			for _, q := range before {
				present = append(present, fmt.Sprint(nameNo[q.Name()]))
			}
			dash := func(xs []string) string {
				if len(xs) == 0 {
					return "-"
				}
				return strings.Join(xs, "+")
			}
			fmt.Fprintf(wo, "dep %s %s %s %s\n", strings.Join(regs, ";"), dash(fs), dash(present), enc(leaf))
			func() {
				defer func() {
					if r := recover(); r != nil {
						fmt.Fprintln(wi, "panic")
					}
				}()
				p.DeployItem(leaf)
				var added []string
				for _, q := range p.VerifItems()[len(before):] {
					added = append(added, fmt.Sprint(nameNo[q.Name()]))
				}
				fmt.Fprintf(wi, "[%s]\n", strings.Join(added, ", "))
			}()
			for _, f := range feats(leaf) {
				enabled[f] = true
			}
		}
	}
}
