package main

import (
	"bufio"
	"fmt"
	"math/rand"
	"os"
	"sort"
	"strconv"
	"strings"

	"gopkg.in/src-d/hercules.v10/leaves"
)

func main() {
	seed, _ := strconv.ParseInt(os.Args[1], 10, 64)
	count, _ := strconv.Atoi(os.Args[2])
	ops, _ := os.Create(os.Args[3])
	impl, _ := os.Create(os.Args[4])
	fixed := "1"
	if len(os.Args) > 5 {
		fixed = os.Args[5]
	}
	wo, wi := bufio.NewWriter(ops), bufio.NewWriter(impl)
	defer wo.Flush()
	defer wi.Flush()
	panics := map[string]int{}
	for it := 0; it < count; it++ {
		rng := rand.New(rand.NewSource(seed + int64(it)))
		G := 1 + rng.Intn(6)
		S := 1 + rng.Intn(G)
		if rng.Intn(10) == 0 {
			S = 1 + rng.Intn(8) // malformed stream: S may exceed G
		}
		nt := rng.Intn(6)
		if rng.Intn(15) != 0 && nt == 0 {
			nt = 1
		}
		h := map[int]map[int]int64{}
		maxTick := 0
		for k := 0; k < nt; k++ {
			tick := rng.Intn(25)
			if tick > maxTick {
				maxTick = tick
			}
			m := map[int]int64{}
			for j := rng.Intn(4); j > 0; j-- {
				m[rng.Intn(tick+1)] = int64(rng.Intn(41) - 20)
			}
			h[tick] = m
		}
		lt := -1
		switch rng.Intn(4) {
		case 0:
			lt = maxTick
		case 1:
			lt = maxTick + rng.Intn(8)
		case 2:
			if rng.Intn(4) == 0 {
				lt = rng.Intn(maxTick + 1)
			}
		}
		var ticks []int
		for t := range h {
			ticks = append(ticks, t)
		}
		sort.Ints(ticks)
		var es []string
		for _, t := range ticks {
			var ks []int
			for k := range h[t] {
				ks = append(ks, k)
			}
			sort.Ints(ks)
			var kv []string
			for _, k := range ks {
				kv = append(kv, fmt.Sprintf("%d=%d", k, h[t][k]))
			}
			es = append(es, fmt.Sprintf("%d:%s", t, strings.Join(kv, ",")))
		}
		hs := strings.Join(es, ";")
		if hs == "" {
			hs = "-"
		}
		lts := "-"
		if lt >= 0 {
			lts = strconv.Itoa(lt)
		}
		fmt.Fprintf(wo, "g %s %d %d %s %s\n", fixed, S, G, lts, hs)
		func() {
			defer func() {
				if r := recover(); r != nil {
					msg := fmt.Sprint(r)
					if strings.Contains(msg, "index out of range") {
						msg = "index out of range"
					}
					panics[msg]++
					fmt.Fprintf(wi, "panic %s\n", msg)
				}
			}()
			rows, last := leaves.VerifGroupSparseHistory(S, G, h, lt)
			var rs []string
			for _, r := range rows {
				var cs []string
				for _, c := range r {
					cs = append(cs, strconv.FormatInt(c, 10))
				}
				rs = append(rs, "["+strings.Join(cs, ", ")+"]")
			}
			fmt.Fprintf(wi, "%d [%s]\n", last, strings.Join(rs, ", "))
		}()
	}
	fmt.Fprintln(os.Stderr, "panics:", panics)
}
