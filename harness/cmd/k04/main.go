package main

import (
	"fmt"
	"gopkg.in/src-d/hercules.v10/verifharness/hv"
	"io/ioutil"
	"log"
	"math/rand"
	"sort"
	"strings"

	"gopkg.in/src-d/go-git.v4/plumbing"
	"gopkg.in/src-d/go-git.v4/plumbing/object"
	"gopkg.in/src-d/hercules.v10/internal/core"
)

var kinds = []string{"C", "F", "M", "E", "D", "H", "B"}

func enc(plan []core.VerifAction, idx map[plumbing.Hash]int) string {
	var sb []string
	for _, a := range plan {
		c := 0
		if a.Commit != nil {
			c = idx[a.Commit.Hash]
		}
		var its []string
		for _, i := range a.Items {
			its = append(its, fmt.Sprint(i))
		}
		sb = append(sb, fmt.Sprintf("%s:%d:%s", kinds[a.Action], c, strings.Join(its, ",")))
	}
	return strings.Join(sb, " ")
}

func canon(plan []core.VerifAction) []core.VerifAction {
	p := append([]core.VerifAction{}, plan...)
	for i := 0; i < len(p); {
		j := i
		for j < len(p) && p[j].Action == 4 {
			j++
		}
		if j > i {
			sort.Slice(p[i:j], func(a, b int) bool { return p[i+a].Items[0] < p[i+b].Items[0] })
			i = j
		} else {
			i++
		}
	}
	return p
}

// canonical print, consecutive deletes sorted
func show(plan []core.VerifAction, idx map[plumbing.Hash]int) string {
	p := append([]core.VerifAction{}, plan...)
	for i := 0; i < len(p); {
		j := i
		for j < len(p) && p[j].Action == 4 {
			j++
		}
		if j > i {
			sort.Slice(p[i:j], func(a, b int) bool { return p[i+a].Items[0] < p[i+b].Items[0] })
			i = j
		} else {
			i++
		}
	}
	var sb []string
	for _, a := range p {
		if a.Action == 0 {
			sb = append(sb, fmt.Sprintf("C%d@%d", idx[a.Commit.Hash], a.Items[0]))
		} else {
			its := make([]string, len(a.Items))
			for i, x := range a.Items {
				its[i] = fmt.Sprint(x)
			}
			sb = append(sb, fmt.Sprintf("%s[%s]", kinds[a.Action], strings.Join(its, ", ")))
		}
	}
	return strings.Join(sb, " ")
}

func main() {
	log.SetOutput(ioutil.Discard)
	hvSeed, hvCount, wo, wi, _, hvDone := hv.Args()
	defer hvDone()
	rng := rand.New(rand.NewSource(hvSeed))
	for it := 0; it < hvCount; it++ {
		n := 3 + rng.Intn(25)
		hashes := make([]plumbing.Hash, n)
		idx := map[plumbing.Hash]int{}
		for i := range hashes {
			rng.Read(hashes[i][:])
			idx[hashes[i]] = i
		}
		var cs []*object.Commit
		for c := 0; c < n; c++ {
			cm := &object.Commit{Hash: hashes[c]}
			if c > 0 && !(c == 1 && rng.Intn(8) == 0) {
				np := 1
				if c > 1 && rng.Intn(10) < 4 {
					np = 2 + rng.Intn(2)
				}
				seen := map[int]bool{}
				for k := 0; k < np; k++ {
					p := c - 1 - rng.Intn(min(c, 5))
					if !seen[p] {
						seen[p] = true
						cm.ParentHashes = append(cm.ParentHashes, hashes[p])
					}
				}
			}
			cs = append(cs, cm)
		}
		d := 1 + rng.Intn(6)
		var base, gc, hib []core.VerifAction
		ok := true
		func() {
			defer func() {
				if recover() != nil {
					ok = false
				}
			}()
			base, gc, hib = core.VerifPlanStages(cs, d)
		}()
		if !ok {
			continue
		}
		fmt.Fprintf(wo, "gc %s\n", enc(base, idx))
		fmt.Fprintf(wi, "%s\n", show(gc, idx))
		fmt.Fprintf(wo, "hb %d %s\n", d, enc(canon(gc), idx))
		fmt.Fprintf(wi, "%s\n", show(hib, idx))
	}
}

func min(a, b int) int {
	if a < b {
		return a
	}
	return b
}
