package main

import (
	"bufio"
	"fmt"
	"math/rand"
	"os"
	"sort"
	"strconv"
	"strings"

	"gopkg.in/src-d/hercules.v10/internal/plumbing/identity"
)

func show(s string) string {
	if s == "" {
		return "_"
	}
	return s
}

func gen(rng *rand.Rand, wf bool) []string {
	n := rng.Intn(5)
	used := map[string]bool{}
	var res []string
	for i := 0; i < n; i++ {
		var toks []string
		seen := map[string]bool{}
		for k := 1 + rng.Intn(3); k > 0; k-- {
			var t string
			if rng.Intn(2) == 0 {
				t = fmt.Sprintf("n%d", rng.Intn(7))
			} else {
				t = fmt.Sprintf("e%d@x", rng.Intn(7))
			}
			if !wf && rng.Intn(25) == 0 {
				t = ""
			}
			if seen[t] || (wf && used[t]) {
				continue
			}
			seen[t] = true
			used[t] = true
			toks = append(toks, t)
		}
		if len(toks) == 0 {
			continue
		}
		res = append(res, strings.Join(toks, "|"))
	}
	return res
}

func enc(l []string) string {
	if len(l) == 0 {
		return "-"
	}
	var es []string
	for _, e := range l {
		ts := strings.Split(e, "|")
		for i := range ts {
			ts[i] = show(ts[i])
		}
		es = append(es, strings.Join(ts, "|"))
	}
	return strings.Join(es, ";")
}

func main() {
	seed, _ := strconv.ParseInt(os.Args[1], 10, 64)
	count, _ := strconv.Atoi(os.Args[2])
	ops, _ := os.Create(os.Args[3])
	impl, _ := os.Create(os.Args[4])
	wo, wi := bufio.NewWriter(ops), bufio.NewWriter(impl)
	defer wo.Flush()
	defer wi.Flush()
	nwf := 0
	for it := 0; it < count; it++ {
		rng := rand.New(rand.NewSource(seed + int64(it)))
		wf := rng.Intn(3) != 0
		if wf {
			nwf++
		}
		rd1, rd2 := gen(rng, wf), gen(rng, wf)
		fmt.Fprintf(wo, "mrg %s %s\n", enc(rd1), enc(rd2))
		idx, strs := identity.MergeReversedDictsIdentities(rd1, rd2)
		var keys []string
		for k := range idx {
			keys = append(keys, k)
		}
		sort.Strings(keys)
		var kv []string
		for _, k := range keys {
			v := idx[k]
			kv = append(kv, fmt.Sprintf("%s=%d,%d,%d", show(k), v.Final, v.First, v.Second))
		}
		var ss []string
		for _, s := range strs {
			ss = append(ss, show(s))
		}
		fmt.Fprintf(wi, "%s # %s\n", strings.Join(ss, ";"), strings.Join(kv, " "))
		if wf {
			// the premises of the component theorems (Idn/MergeIndex.lean) hold on every well-formed pair
			fmt.Fprintf(wo, "mrgwf %s %s\n", enc(rd1), enc(rd2))
			fmt.Fprintln(wi, "true")
		}
	}
	fmt.Fprintln(os.Stderr, "well-formed:", nwf, "of", count)
}
