package main

import (
	"bufio"
	"fmt"
	"math/rand"
	"os"
	"sort"
	"strconv"
	"strings"

	"gopkg.in/src-d/hercules.v10/internal/plumbing/identity"
	"gopkg.in/src-d/hercules.v10/verifharness/hv"
)

func show(s string) string {
	if s == "" {
		return "_"
	}
	return s
}

func gen(rng *rand.Rand, wf bool) []string {
	n := rng.Intn(5)
	used := map[string]bool{}
	var res []string
	for i := 0; i < n; i++ {
		var toks []string
		seen := map[string]bool{}
		for k := 1 + rng.Intn(3); k > 0; k-- {
			var t string
			if rng.Intn(2) == 0 {
				t = fmt.Sprintf("n%d", rng.Intn(7))
			} else {
				t = fmt.Sprintf("e%d@x", rng.Intn(7))
			}
			if !wf && rng.Intn(25) == 0 {
				t = ""
			}
			if seen[t] || (wf && used[t]) {
				continue
			}
			seen[t] = true
			used[t] = true
			toks = append(toks, t)
		}
		if len(toks) == 0 {
			continue
		}
		res = append(res, strings.Join(toks, "|"))
	}
	return res
}

func enc(l []string) string {
	if len(l) == 0 {
		return "-"
	}
	var es []string
	for _, e := range l {
		ts := strings.Split(e, "|")
		for i := range ts {
			ts[i] = show(ts[i])
		}
		es = append(es, strings.Join(ts, "|"))
	}
	return strings.Join(es, ";")
}

func main() {
	seed, _ := strconv.ParseInt(os.Args[1], 10, 64)
	count, _ := strconv.Atoi(os.Args[2])
	ops, _ := os.Create(os.Args[3])
	impl, _ := os.Create(os.Args[4])
	wo, wi := bufio.NewWriter(ops), bufio.NewWriter(impl)
	defer wo.Flush()
	defer wi.Flush()
	nwf := 0
	for it := 0; it < count; it++ {
		rng := rand.New(rand.NewSource(seed + int64(it)))
		wf := rng.Intn(3) != 0
		if wf {
			nwf++
		}
		rd1, rd2 := gen(rng, wf), gen(rng, wf)
		fmt.Fprintf(wo, "mrg %s %s\n", enc(rd1), enc(rd2))
		idx, strs := identity.MergeReversedDictsIdentities(rd1, rd2)
		var keys []string
		for k := range idx {
			keys = append(keys, k)
		}
		sort.Strings(keys)
		var kv []string
		for _, k := range keys {
			v := idx[k]
			kv = append(kv, fmt.Sprintf("%s=%d,%d,%d", show(k), v.Final, v.First, v.Second))
		}
		var ss []string
		for _, s := range strs {
			ss = append(ss, show(s))
		}
		fmt.Fprintf(wi, "%s # %s\n", strings.Join(ss, ";"), strings.Join(kv, " "))
		if wf {
			// Go-side statement of the merge half of C16 / C18 (no model involved): on lists whose entries are pairwise
			// token-disjoint the merged identities are exactly the connected components of "occur in one entry"
			parent := map[string]string{}
			var find func(x string) string
			find = func(x string) string {
				if parent[x] == "" || parent[x] == x {
					parent[x] = x
					return x
				}
				r := find(parent[x])
				parent[x] = r
				return r
			}
			for _, l := range [][]string{rd1, rd2} {
				for _, e := range l {
					ts := strings.Split(e, "|")
					for _, t := range ts {
						find(t)
						parent[find(t)] = find(ts[0])
					}
				}
			}
			caseJSON := fmt.Sprintf(`{"first":%q,"second":%q}`, rd1, rd2)
			where := map[string]int{}
			seenEntry := map[string]bool{}
			for i, m := range strs {
				if seenEntry[m] {
					hv.Fail("merge-components", caseJSON, fmt.Sprintf("the merged list %q names the identity %q twice", strs, m))
				}
				seenEntry[m] = true
				for _, t := range strings.Split(m, "|") {
					if j, dup := where[t]; dup && j != i {
						hv.Fail("merge-components", caseJSON, fmt.Sprintf("token %q is in two merged identities of %q", t, strs))
					}
					if _, known := parent[t]; !known {
						hv.Fail("merge-components", caseJSON, fmt.Sprintf("token %q of the merged list %q is in neither input", t, strs))
					}
					where[t] = i
				}
			}
			// every input identity is indexed under its own string, at the merged identity that holds its tokens
			for li, l := range [][]string{rd1, rd2} {
				for pos, e := range l {
					v, ok := idx[e]
					if !ok || v.Final < 0 || v.Final >= len(strs) {
						hv.Fail("merge-components", caseJSON, fmt.Sprintf("input identity %q has no valid index entry (present: %v, final %d of %d)", e, ok, v.Final, len(strs)))
						continue
					}
					for _, t := range strings.Split(e, "|") {
						if where[t] != v.Final {
							hv.Fail("merge-components", caseJSON, fmt.Sprintf("input identity %q is indexed at merged identity %d (%q), its token %q is in %d", e, v.Final, strs[v.Final], t, where[t]))
						}
					}
					if (li == 0 && v.First != pos) || (li == 1 && v.Second != pos) {
						hv.Fail("merge-components", caseJSON, fmt.Sprintf("input identity %q is entry %d of list %d, the index says first=%d second=%d", e, pos, li+1, v.First, v.Second))
					}
				}
			}
			for t := range parent {
				i, ok := where[t]
				if !ok {
					hv.Fail("merge-components", caseJSON, fmt.Sprintf("token %q is missing from the merged list %q", t, strs))
					continue
				}
				for u := range parent {
					if j, ok2 := where[u]; ok2 && (find(t) == find(u)) != (i == j) {
						hv.Fail("merge-components", caseJSON, fmt.Sprintf("tokens %q and %q: connected=%v but merged identities %d and %d (%q)", t, u, find(t) == find(u), i, j, strs))
					}
				}
			}
			// the premises of the component theorems (Idn/MergeIndex.lean) hold on every well-formed pair
			fmt.Fprintf(wo, "mrgwf %s %s\n", enc(rd1), enc(rd2))
			fmt.Fprintln(wi, "true")
		}
	}
	fmt.Fprintln(os.Stderr, "well-formed:", nwf, "of", count)
}
