package main

import (
	"fmt"
	"gopkg.in/src-d/hercules.v10/verifharness/hv"
	"math/big"
	"math/rand"
	"time"

	items "gopkg.in/src-d/hercules.v10/internal/plumbing"
)

// absolute nanoseconds since the zero time (year 1)
func abs(t time.Time) *big.Int {
	s := big.NewInt(t.Unix())
	s.Add(s, big.NewInt(62135596800))
	s.Mul(s, big.NewInt(1000000000))
	s.Add(s, big.NewInt(int64(t.Nanosecond())))
	return s
}

func main() {
	hvSeed, hvCount, wo, wi, _, hvDone := hv.Args()
	defer hvDone()
	rng := rand.New(rand.NewSource(hvSeed))
	durs := []time.Duration{time.Hour, 6 * time.Hour, 7 * time.Hour, 24 * time.Hour, 168 * time.Hour, 17 * time.Minute}
	for it := 0; it < hvCount; it++ {
		d := durs[rng.Intn(len(durs))]
		t := time.Date(1960+rng.Intn(400), time.Month(1+rng.Intn(12)), 1+rng.Intn(28), rng.Intn(24), rng.Intn(60), rng.Intn(60), rng.Intn(1e9), time.FixedZone("z", (rng.Intn(25)-12)*3600))
		if rng.Intn(10) == 0 { // exact boundaries
			t = items.FloorTime(t, d)
			if rng.Intn(2) == 0 {
				t = t.Add(time.Duration(rng.Intn(3) - 1))
			}
		}
		fl := items.FloorTime(t, d)
		// Go-side statement (oracle): the start of the period that contains t, periods counted from the zero time,
		// which is what time.Truncate computes
		if !fl.Equal(t.Truncate(d)) {
			hv.Fail("floor-time", fmt.Sprintf(`{"time":%q,"tick_size_ns":%d}`, t.UTC().Format(time.RFC3339Nano), int64(d)),
				fmt.Sprintf("FloorTime gives %s, the period containing the time starts at %s", fl.UTC().Format(time.RFC3339Nano), t.Truncate(d).UTC().Format(time.RFC3339Nano)))
		}
		fmt.Fprintf(wo, "floor %s %d\n", abs(t), int64(d))
		fmt.Fprintf(wi, "%s\n", abs(fl))
		// tick computation as in Consume
		t2 := t.Add(time.Duration(rng.Int63n(int64(400*24*time.Hour))) - time.Duration(rng.Int63n(int64(30*24*time.Hour))))
		if rng.Intn(20) == 0 {
			t2 = t.AddDate(300+rng.Intn(100), 0, 0) // beyond the Duration range
		}
		prev := rng.Intn(50)
		tick := int(t2.Sub(fl) / d)
		if tick < prev {
			tick = prev
		}
		fmt.Fprintf(wo, "tick %s %s %d %d\n", abs(fl), abs(t2), int64(d), prev)
		fmt.Fprintf(wi, "%d\n", tick)
	}
}
