// k18c: CouplesAnalysis.MergeResults on generated pairs of results (C18), Go-side statement of the property:
// coupling matrices, line counts and touched-files lists are the sums / unions of the inputs after re-indexing rows and
// columns by file name and by merged developer identity (the unmatched author stays the last row / column).
// Oracle-only probe (the identity-list merge itself is modelled and checked under C16 / C18 IDM).
package main

import (
	"encoding/json"
	"fmt"
	"math/rand"
	"sort"

	"gopkg.in/src-d/hercules.v10/internal/core"
	"gopkg.in/src-d/hercules.v10/internal/plumbing/identity"
	"gopkg.in/src-d/hercules.v10/leaves"
	"gopkg.in/src-d/hercules.v10/verifharness/hv"
)

type res struct {
	Files  []string
	Lines  []int
	FM     []map[int]int64
	PM     []map[int]int64
	PF     [][]int
	People []string
}

func gen(rng *rand.Rand, filePool, devPool []string, fromFinalize bool) res {
	var r res
	for _, f := range filePool {
		if rng.Intn(2) == 0 {
			r.Files = append(r.Files, f)
			r.Lines = append(r.Lines, rng.Intn(300))
		}
	}
	for _, d := range devPool {
		if rng.Intn(2) == 0 {
			r.People = append(r.People, d)
		}
	}
	rng.Shuffle(len(r.Files), func(i, j int) {
		r.Files[i], r.Files[j] = r.Files[j], r.Files[i]
		r.Lines[i], r.Lines[j] = r.Lines[j], r.Lines[i]
	})
	rng.Shuffle(len(r.People), func(i, j int) { r.People[i], r.People[j] = r.People[j], r.People[i] })
	nf, np := len(r.Files), len(r.People)
	r.FM = make([]map[int]int64, nf)
	for i := range r.FM {
		r.FM[i] = map[int]int64{}
		for j := 0; j < nf; j++ {
			if rng.Intn(3) == 0 {
				r.FM[i][j] = int64(1 + rng.Intn(20))
			}
		}
	}
	r.PM = make([]map[int]int64, np+1)
	for i := range r.PM {
		r.PM[i] = map[int]int64{}
		for j := 0; j <= np; j++ {
			if rng.Intn(3) == 0 {
				r.PM[i][j] = int64(1 + rng.Intn(20))
			}
		}
	}
	rows := np
	if fromFinalize {
		rows = np + 1 // Finalize also produces a row for the unmatched author
	}
	r.PF = make([][]int, rows)
	for i := range r.PF {
		r.PF[i] = []int{}
		for j := 0; j < nf; j++ {
			if rng.Intn(3) == 0 {
				r.PF[i] = append(r.PF[i], j)
			}
		}
	}
	return r
}

func main() {
	hv.RunOracle(func(cs int64, extra []string) (string, string, string, []string) {
		rng := rand.New(rand.NewSource(cs))
		filePool := []string{"a.go", "b.go", "dir/c.py", "d.txt", "e.md"}
		devPool := []string{"ann|ann@x", "bob|bob@x", "carl|carl@y", "dee|dee@x", "ann2|ann@x", "bob|bob@work"}
		r1 := gen(rng, filePool, devPool, rng.Intn(2) == 0)
		r2 := gen(rng, filePool, devPool, rng.Intn(2) == 0)
		desc, _ := json.Marshal(map[string]interface{}{"seed": cs, "r1": r1, "r2": r2})
		ca := &leaves.CouplesAnalysis{}
		c1 := leaves.VerifNewCouplesResult(r1.PM, r1.PF, r1.FM, r1.Lines, r1.Files, r1.People)
		c2 := leaves.VerifNewCouplesResult(r2.PM, r2.PF, r2.FM, r2.Lines, r2.Files, r2.People)
		var m leaves.CouplesResult
		msg := ""
		func() {
			defer func() {
				if r := recover(); r != nil {
					msg = fmt.Sprintf("panic: %v", r)
				}
			}()
			m = ca.MergeResults(c1, c2, &core.CommonAnalysisResult{}, &core.CommonAnalysisResult{}).(leaves.CouplesResult)
		}()
		if msg != "" {
			return string(desc), "couples-merge", msg, nil
		}
		people, mergedPeople := identity.MergeReversedDictsIdentities(r1.People, r2.People)
		files, mergedFiles := identity.MergeReversedDictsLiteral(r1.Files, r2.Files)
		if fmt.Sprint(m.Files) != fmt.Sprint(mergedFiles) || fmt.Sprint(leaves.VerifCouplesDict(m)) != fmt.Sprint(mergedPeople) {
			return string(desc), "couples-merge", "merged file names or identities are not the merged index tables", nil
		}
		nf, np := len(mergedFiles), len(mergedPeople)
		wantLines := make([]int, nf)
		wantFM := make([]map[int]int64, nf)
		wantPM := make([]map[int]int64, np+1)
		wantPF := make([]map[int]bool, np)
		for _, r := range []res{r1, r2} {
			fi := func(i int) int { return files[r.Files[i]].Final }
			pi := func(i int) int {
				if i < len(r.People) {
					return people[r.People[i]].Final
				}
				return np
			}
			for i, l := range r.Lines {
				wantLines[fi(i)] += l
			}
			for i, row := range r.FM {
				for j, v := range row {
					if wantFM[fi(i)] == nil {
						wantFM[fi(i)] = map[int]int64{}
					}
					wantFM[fi(i)][fi(j)] += v
				}
			}
			for i, row := range r.PM {
				for j, v := range row {
					if wantPM[pi(i)] == nil {
						wantPM[pi(i)] = map[int]int64{}
					}
					wantPM[pi(i)][pi(j)] += v
				}
			}
			for i, fs := range r.PF {
				if i >= len(r.People) {
					continue // the unmatched author's touched files are not carried over
				}
				if wantPF[pi(i)] == nil {
					wantPF[pi(i)] = map[int]bool{}
				}
				for _, f := range fs {
					wantPF[pi(i)][fi(f)] = true
				}
			}
		}
		showM := func(m []map[int]int64) string {
			out := ""
			for i, row := range m {
				var ks []int
				for k := range row {
					ks = append(ks, k)
				}
				sort.Ints(ks)
				out += fmt.Sprintf("%d:{", i)
				for _, k := range ks {
					out += fmt.Sprintf("%d=%d ", k, row[k])
				}
				out += "} "
			}
			return out
		}
		if fmt.Sprint(m.FilesLines) != fmt.Sprint(wantLines) {
			return string(desc), "couples-merge", fmt.Sprintf("file line counts %v, the inputs add up to %v", m.FilesLines, wantLines), nil
		}
		if showM(m.FilesMatrix) != showM(wantFM) {
			return string(desc), "couples-merge", "file coupling matrix " + showM(m.FilesMatrix) + ", re-indexed sums " + showM(wantFM), nil
		}
		if showM(m.PeopleMatrix) != showM(wantPM) {
			return string(desc), "couples-merge", "developer coupling matrix " + showM(m.PeopleMatrix) + ", re-indexed sums " + showM(wantPM), nil
		}
		for i := 0; i < np; i++ {
			var w []int
			for f := range wantPF[i] {
				w = append(w, f)
			}
			sort.Ints(w)
			got := append([]int{}, m.PeopleFiles[i]...)
			if fmt.Sprint(got) != fmt.Sprint(w) && !(len(got) == 0 && len(w) == 0) {
				return string(desc), "couples-merge", fmt.Sprintf("developer %d touched files %v, union of the inputs %v", i, got, w), nil
			}
		}
		return string(desc), "couples-merge", "", nil
	})
}
