package main

import (
	"bytes"
	"fmt"
	"gopkg.in/src-d/hercules.v10/verifharness/hv"
	"math/rand"
	"strings"

	"github.com/sergi/go-diff/diffmatchpatch"
	"gopkg.in/src-d/go-git.v4/plumbing"
	"gopkg.in/src-d/go-git.v4/plumbing/object"
	"gopkg.in/src-d/hercules.v10/internal/core"
	items "gopkg.in/src-d/hercules.v10/internal/plumbing"
)

func main() {
	hvSeed, hvCount, wo, wi, _, hvDone := hv.Args()
	defer hvDone()
	rng := rand.New(rand.NewSource(hvSeed))
	alphabet := []byte{'a', 'b', '\n', '\n', ' ', '\r', 0xff, 'x'}
	for it := 0; it < hvCount; it++ {
		n := rng.Intn(12)
		data := make([]byte, n)
		for i := range data {
			data[i] = alphabet[rng.Intn(len(alphabet))]
		}
		longAt, longLen := -1, 0
		if it%250 == 249 {
			// a very long line (minified sources): around the 64 KiB token limit of bufio.Scanner and beyond
			longLen = []int{65535, 65536, 65537, 66000, 131072, 200001}[rng.Intn(6)]
			longAt = rng.Intn(len(data) + 1)
			nd := append([]byte{}, data[:longAt]...)
			nd = append(nd, bytes.Repeat([]byte{'q'}, longLen)...)
			data = append(nd, data[longAt:]...)
		}
		cb := &items.CachedBlob{Data: data}
		cl, _ := cb.CountLines()
		dmp := diffmatchpatch.New()
		runes, _, lines := dmp.DiffLinesToRunes(string(data), "")
		// lines[0] is "" (dummy); per-line byte lengths in order of runes
		var lens []string
		for _, r := range runes {
			lens = append(lens, fmt.Sprint(len(lines[r])))
		}
		var bs []string
		for i := 0; i < len(data); i++ {
			if i == longAt {
				bs = append(bs, fmt.Sprintf("%d*%d", longLen, 'q')) // run-length token
				i += longLen - 1
				continue
			}
			bs = append(bs, fmt.Sprint(int(data[i])))
		}
		if cl != len(runes) && bytes.IndexByte(data, 0) < 0 {
			hv.Fail("countlines-vs-diff", fmt.Sprintf(`{"bytes":%q}`, strings.Join(bs, ",")),
				fmt.Sprintf("CountLines says %d, the diff splitter produces %d lines", cl, len(runes)))
		}
		b := strings.Join(bs, ",")
		if b == "" {
			b = "-"
		}
		fmt.Fprintf(wo, "lines %s\n", b)
		fmt.Fprintf(wi, "%d %d [%s]\n", cl, len(runes), strings.Join(lens, ", "))
	}
	// whitespace-ignore: stripWhitespace against the model, and its line count against CountLines of the raw data
	wsAlphabet := []byte{' ', ' ', '\n', 'a', 'b', '\r', ' '}
	for it := 0; it < hvCount; it++ {
		n := rng.Intn(9)
		data := make([]byte, n)
		for i := range data {
			data[i] = wsAlphabet[rng.Intn(len(wsAlphabet))]
		}
		var bs []string
		for _, c := range data {
			bs = append(bs, fmt.Sprint(int(c)))
		}
		b := strings.Join(bs, ",")
		if b == "" {
			b = "-"
		}
		stripped := items.VerifStripWhitespace(string(data))
		cs, _ := (&items.CachedBlob{Data: []byte(stripped)}).CountLines()
		cr, _ := (&items.CachedBlob{Data: data}).CountLines()
		if cs != cr {
			hv.Fail("strip-line-count", fmt.Sprintf(`{"bytes":%q}`, b),
				fmt.Sprintf("%d lines after removing the spaces, %d before", cs, cr))
		}
		var out []string
		for _, c := range []byte(stripped) {
			out = append(out, fmt.Sprint(int(c)))
		}
		fmt.Fprintf(wo, "strip %s\n", b)
		fmt.Fprintf(wi, "[%s] %d\n", strings.Join(out, ", "), cs)
	}
	// line stats
	lsc := &items.LinesStatsCalculator{}
	lsc.Initialize(nil)
	for it := 0; it < hvCount; it++ {
		k := rng.Intn(7)
		var diffs []diffmatchpatch.Diff
		var es []string
		prevDel := false
		for i := 0; i < k; i++ {
			n := 1 + rng.Intn(5)
			switch rng.Intn(3) {
			case 0:
				diffs = append(diffs, diffmatchpatch.Diff{Type: diffmatchpatch.DiffEqual, Text: strings.Repeat("x", n)})
				es = append(es, fmt.Sprintf("E:%d", n))
				prevDel = false
			case 1:
				diffs = append(diffs, diffmatchpatch.Diff{Type: diffmatchpatch.DiffInsert, Text: strings.Repeat("x", n)})
				es = append(es, fmt.Sprintf("I:%d", n))
				prevDel = false
			case 2:
				if prevDel && rng.Intn(3) > 0 {
					continue
				}
				diffs = append(diffs, diffmatchpatch.Diff{Type: diffmatchpatch.DiffDelete, Text: strings.Repeat("x", n)})
				es = append(es, fmt.Sprintf("D:%d", n))
				prevDel = true
			}
		}
		ch := &object.Change{
			From: object.ChangeEntry{Name: "f", TreeEntry: object.TreeEntry{Name: "f", Hash: plumbing.NewHash("11")}},
			To:   object.ChangeEntry{Name: "f", TreeEntry: object.TreeEntry{Name: "f", Hash: plumbing.NewHash("22")}}}
		res, err := lsc.Consume(map[string]interface{}{
			core.DependencyIsMerge:      false,
			items.DependencyTreeChanges: object.Changes{ch},
			items.DependencyBlobCache:   map[plumbing.Hash]*items.CachedBlob{},
			items.DependencyFileDiff:    map[string]items.FileDiffData{"f": {Diffs: diffs}},
		})
		if err != nil {
			panic(err)
		}
		st := res[items.DependencyLineStats].(map[object.ChangeEntry]items.LineStats)[ch.To]
		fmt.Fprintf(wo, "stats %s\n", strings.Join(es, " "))
		fmt.Fprintf(wi, "%d %d %d\n", st.Added, st.Removed, st.Changed)
	}
}
