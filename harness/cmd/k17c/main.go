// k17c: binary round trip of couples and developer-statistics results (C17).
// Couples matrices go through the Lean model of the CSR encoding (ops: ccsr <rows>); every other field is checked
// Go-side (oracle): names and their order, line counts, touched-files lists (the row of the unmatched author is not
// part of the format), identity list; for developer statistics every tick/developer/language record, -1 <-> the
// unmatched author, tick size.
package main

import (
	"bytes"
	"encoding/json"
	"fmt"
	"math/rand"
	"reflect"
	"sort"
	"strings"
	"time"

	"github.com/gogo/protobuf/proto"
	"gopkg.in/src-d/hercules.v10/internal/pb"
	"gopkg.in/src-d/hercules.v10/internal/plumbing"
	"gopkg.in/src-d/hercules.v10/internal/plumbing/identity"
	"gopkg.in/src-d/hercules.v10/leaves"
	"gopkg.in/src-d/hercules.v10/verifharness/hv"
)

func fmtRows(m []map[int]int64) string {
	if len(m) == 0 {
		return "."
	}
	var rows []string
	for _, r := range m {
		var ks []int
		for k := range r {
			ks = append(ks, k)
		}
		sort.Ints(ks)
		var es []string
		for _, k := range ks {
			es = append(es, fmt.Sprintf("%d=%d", k, r[k]))
		}
		if len(es) == 0 {
			rows = append(rows, "-")
		} else {
			rows = append(rows, strings.Join(es, ","))
		}
	}
	return strings.Join(rows, ";")
}

func genMatrix(rng *rand.Rand, n int) []map[int]int64 {
	m := make([]map[int]int64, n)
	for i := range m {
		m[i] = map[int]int64{}
		for j := 0; j < n; j++ {
			switch rng.Intn(6) {
			case 0:
				m[i][j] = 0 // an explicit zero entry
			case 1, 2:
				m[i][j] = int64(1 + rng.Intn(50))
			case 3:
				if rng.Intn(4) == 0 {
					m[i][j] = int64(rng.Int63n(1 << 40))
				}
			}
		}
	}
	return m
}

var names = []string{"a.go", "dir/b.py", "пример.txt", "x y.c", "", "z\"q.js", "日本.md"}

func fmtTicks(ticks map[int]map[int]*leaves.DevTick) string {
	var tks []int
	for t := range ticks {
		tks = append(tks, t)
	}
	sort.Ints(tks)
	var out []string
	for _, t := range tks {
		var dvs []int
		for d := range ticks[t] {
			dvs = append(dvs, d)
		}
		sort.Ints(dvs)
		for _, d := range dvs {
			st := ticks[t][d]
			var ls []string
			for l := range st.Languages {
				ls = append(ls, l)
			}
			sort.Strings(ls)
			var lg []string
			for _, l := range ls {
				v := st.Languages[l]
				n := l
				if n == "" {
					n = "_"
				}
				lg = append(lg, fmt.Sprintf("%s=%d/%d/%d", n, v.Added, v.Removed, v.Changed))
			}
			out = append(out, fmt.Sprintf("%d:%d:%d:%d/%d/%d:%s", t, d, st.Commits, st.Added, st.Removed, st.Changed, strings.Join(lg, "|")))
		}
	}
	if len(out) == 0 {
		return "-"
	}
	return strings.Join(out, ";")
}

func main() {
	seed, count, wo, wi, _, done := hv.Args()
	defer done()
	rng := rand.New(rand.NewSource(seed))
	ca := &leaves.CouplesAnalysis{}
	da := &leaves.DevsAnalysis{}
	stats := map[string]int{}
	for it := 0; it < count; it++ {
		nf := rng.Intn(6)
		np := rng.Intn(5)
		files := make([]string, nf)
		lines := make([]int, nf)
		for i := range files {
			files[i] = fmt.Sprintf("%d-%s", i, names[rng.Intn(len(names))])
			lines[i] = rng.Intn(5000)
		}
		dict := make([]string, np)
		for i := range dict {
			dict[i] = fmt.Sprintf("dev%d|dev%d@x", i, i)
		}
		fm := genMatrix(rng, nf)
		pm := genMatrix(rng, np+1)
		pf := make([][]int, np+1)
		for i := range pf {
			pf[i] = []int{}
			for j := 0; j < nf; j++ {
				if rng.Intn(3) == 0 {
					pf[i] = append(pf[i], j)
				}
			}
		}
		res := leaves.VerifNewCouplesResult(pm, pf, fm, lines, files, dict)
		desc := func() string {
			c, _ := json.Marshal(map[string]interface{}{"files": files, "lines": lines, "files_matrix": fmtRows(fm), "people_matrix": fmtRows(pm), "people_files": pf, "people": dict})
			return string(c)
		}
		var buf bytes.Buffer
		var back leaves.CouplesResult
		msg := ""
		func() {
			defer func() {
				if r := recover(); r != nil {
					msg = fmt.Sprintf("panic: %v", r)
				}
			}()
			if err := ca.Serialize(res, true, &buf); err != nil {
				msg = "serialize: " + err.Error()
				return
			}
			b, err := ca.Deserialize(buf.Bytes())
			if err != nil {
				msg = "deserialize: " + err.Error()
				return
			}
			back = b.(leaves.CouplesResult)
		}()
		// text format: both coupling matrices are printed with one line per row, every cell
		func() {
			defer func() {
				if r := recover(); r != nil {
					hv.Fail("couples-text", desc(), fmt.Sprintf("text serialization panicked: %v", r))
				}
			}()
			var tb bytes.Buffer
			if err := ca.Serialize(res, false, &tb); err != nil {
				hv.Fail("couples-text", desc(), "text serialization failed: "+err.Error())
				return
			}
			lines := strings.Split(tb.String(), "\n")
			var blocks [][]string
			for i, l := range lines {
				if strings.TrimSpace(l) == "matrix:" {
					var rows []string
					for _, r := range lines[i+1:] {
						if !strings.HasPrefix(r, "      - {") {
							break
						}
						rows = append(rows, strings.TrimSuffix(strings.TrimPrefix(r, "      - {"), "}"))
					}
					blocks = append(blocks, rows)
				}
			}
			want := func(m []map[int]int64) []string {
				var rows []string
				for _, row := range m {
					var ks []int
					for k := range row {
						ks = append(ks, k)
					}
					sort.Ints(ks)
					var cells []string
					for _, k := range ks {
						cells = append(cells, fmt.Sprintf("%d: %d", k, row[k]))
					}
					rows = append(rows, strings.Join(cells, ", "))
				}
				return rows
			}
			if len(blocks) != 2 {
				hv.Fail("couples-text", desc(), fmt.Sprintf("%d matrix blocks in the text output", len(blocks)))
				return
			}
			for bi, m := range [][]map[int]int64{fm, pm} {
				w := want(m)
				if fmt.Sprint(blocks[bi]) != fmt.Sprint(w) && !(len(blocks[bi]) == 0 && len(w) == 0) {
					hv.Fail("couples-text", desc(), fmt.Sprintf("matrix %d is printed as %d rows %q, the result holds %d rows %q", bi, len(blocks[bi]), blocks[bi], len(w), w))
				}
			}
		}()
		fmt.Fprintf(wo, "ccsr %s\n", fmtRows(fm))
		fmt.Fprintf(wo, "ccsr %s\n", fmtRows(pm))
		if msg != "" {
			fmt.Fprintln(wi, "error")
			fmt.Fprintln(wi, "error")
			hv.Fail("couples-roundtrip", desc(), msg)
		} else {
			fmt.Fprintln(wi, fmtRows(back.FilesMatrix))
			fmt.Fprintln(wi, fmtRows(back.PeopleMatrix))
			stats["couples"]++
			switch {
			case fmtRows(back.FilesMatrix) != fmtRows(fm) || fmtRows(back.PeopleMatrix) != fmtRows(pm):
				hv.Fail("couples-roundtrip", desc(), "matrix cells differ after the round trip: files "+fmtRows(back.FilesMatrix)+" people "+fmtRows(back.PeopleMatrix))
			case !reflect.DeepEqual(append([]string{}, back.Files...), append([]string{}, files...)) && !(len(files) == 0 && len(back.Files) == 0):
				hv.Fail("couples-roundtrip", desc(), fmt.Sprintf("file names %q", back.Files))
			case fmt.Sprint(back.FilesLines) != fmt.Sprint(lines):
				hv.Fail("couples-roundtrip", desc(), fmt.Sprintf("file line counts %v", back.FilesLines))
			case fmt.Sprint(leaves.VerifCouplesDict(back)) != fmt.Sprint(dict):
				hv.Fail("couples-roundtrip", desc(), fmt.Sprintf("identities %q", leaves.VerifCouplesDict(back)))
			case fmt.Sprint(back.PeopleFiles) != fmt.Sprint(pf[:np]):
				hv.Fail("couples-roundtrip", desc(), fmt.Sprintf("touched files %v, written %v (without the unmatched author's row)", back.PeopleFiles, pf[:np]))
			}
		}
		if msg == "" {
			// what was read back can be written and read again (`hercules combine` re-serialises results it has read)
			func() {
				defer func() {
					if r := recover(); r != nil {
						hv.Fail("couples-second-roundtrip", desc(), fmt.Sprintf("writing a result that was read back panicked: %v", r))
					}
				}()
				var b2 bytes.Buffer
				if err := ca.Serialize(back, true, &b2); err != nil {
					hv.Fail("couples-second-roundtrip", desc(), "writing a result that was read back failed: "+err.Error())
					return
				}
				again, err := ca.Deserialize(b2.Bytes())
				if err != nil {
					hv.Fail("couples-second-roundtrip", desc(), "reading the re-written result failed: "+err.Error())
					return
				}
				if !reflect.DeepEqual(again, back) {
					a2 := again.(leaves.CouplesResult)
					hv.Fail("couples-second-roundtrip", desc(), fmt.Sprintf("the result changes when it is written and read a second time: touched files %v -> %v, identities %q -> %q, files %q -> %q",
						back.PeopleFiles, a2.PeopleFiles, leaves.VerifCouplesDict(back), leaves.VerifCouplesDict(a2), back.Files, a2.Files))
				}
				stats["couples_second_roundtrip"]++
			}()
		}
		// developer statistics
		ticks := map[int]map[int]*leaves.DevTick{}
		for t := 0; t < rng.Intn(5); t++ {
			tick := rng.Intn(40)
			ticks[tick] = map[int]*leaves.DevTick{}
			for d := 0; d < 1+rng.Intn(3); d++ {
				dev := rng.Intn(np + 1)
				if dev == np {
					dev = identity.AuthorMissing
				}
				dt := &leaves.DevTick{Commits: rng.Intn(9), LineStats: plumbing.LineStats{Added: rng.Intn(100), Removed: rng.Intn(100), Changed: rng.Intn(100)},
					Languages: map[string]plumbing.LineStats{}}
				for _, l := range []string{"Go", "Python", "", "C++"} {
					if rng.Intn(3) == 0 {
						dt.Languages[l] = plumbing.LineStats{Added: rng.Intn(50), Removed: rng.Intn(50), Changed: rng.Intn(50)}
					}
				}
				ticks[tick][dev] = dt
			}
		}
		tickSize := []time.Duration{time.Hour, 24 * time.Hour, 7 * 24 * time.Hour, 17 * time.Minute}[rng.Intn(4)]
		dres := leaves.VerifNewDevsResult(ticks, dict, int64(tickSize))
		ddesc := func() string {
			c, _ := json.Marshal(map[string]interface{}{"ticks": ticks, "people": dict, "tick_size_ns": int64(tickSize)})
			return string(c)
		}
		fits := true
		if rng.Intn(8) == 0 && len(ticks) > 0 {
			// a counter beyond 32 bits: the written message wraps around (modelled; outside the round-trip law)
			for _, ds := range ticks {
				for _, dt := range ds {
					dt.Added += 1 << 31
					dt.Commits += 3 << 32
					fits = false
					break
				}
				break
			}
		}
		fmt.Fprintf(wo, "dvs %d %s\n", identity.AuthorMissing, fmtTicks(ticks))
		buf.Reset()
		func() {
			defer func() {
				if r := recover(); r != nil {
					fmt.Fprintln(wi, "panic")
					hv.Fail("devs-roundtrip", ddesc(), fmt.Sprintf("panic: %v", r))
				}
			}()
			if err := da.Serialize(dres, true, &buf); err != nil {
				fmt.Fprintln(wi, "error")
				hv.Fail("devs-roundtrip", ddesc(), "serialize: "+err.Error())
				return
			}
			// the written message, field by field
			var message pb.DevsAnalysisResults
			if err := proto.Unmarshal(buf.Bytes(), &message); err != nil {
				fmt.Fprintln(wi, "error")
				hv.Fail("devs-roundtrip", ddesc(), "unmarshal: "+err.Error())
				return
			}
			written := map[int]map[int]*leaves.DevTick{}
			for tk, dd := range message.Ticks {
				written[int(tk)] = map[int]*leaves.DevTick{}
				for dv, st := range dd.Devs {
					dt := &leaves.DevTick{Commits: int(st.Commits), LineStats: plumbing.LineStats{Added: int(st.Stats.Added), Removed: int(st.Stats.Removed), Changed: int(st.Stats.Changed)},
						Languages: map[string]plumbing.LineStats{}}
					for l, ls := range st.Languages {
						dt.Languages[l] = plumbing.LineStats{Added: int(ls.Added), Removed: int(ls.Removed), Changed: int(ls.Changed)}
					}
					written[int(tk)][int(dv)] = dt
				}
			}
			b, err := da.Deserialize(buf.Bytes())
			if err != nil {
				fmt.Fprintln(wi, "error")
				hv.Fail("devs-roundtrip", ddesc(), "deserialize: "+err.Error())
				return
			}
			db := b.(leaves.DevsResult)
			fmt.Fprintf(wi, "%s # %s\n", fmtTicks(written), fmtTicks(db.Ticks))
			if !fits {
				stats["devs_counter_beyond_32_bits"]++
				return
			}
			stats["devs"]++
			if !reflect.DeepEqual(db.Ticks, ticks) && !(len(ticks) == 0 && len(db.Ticks) == 0) {
				got, _ := json.Marshal(db.Ticks)
				hv.Fail("devs-roundtrip", ddesc(), "ticks differ after the round trip: "+string(got))
			} else if fmt.Sprint(leaves.VerifDevsDict(db)) != fmt.Sprint(dict) || leaves.VerifDevsTickSize(db) != int64(tickSize) {
				hv.Fail("devs-roundtrip", ddesc(), "identity list or tick size differs after the round trip")
			}
			// second round trip
			var b2 bytes.Buffer
			if err := da.Serialize(db, true, &b2); err != nil {
				hv.Fail("devs-second-roundtrip", ddesc(), "writing a result that was read back failed: "+err.Error())
				return
			}
			again, err := da.Deserialize(b2.Bytes())
			if err != nil || !reflect.DeepEqual(again, b) {
				hv.Fail("devs-second-roundtrip", ddesc(), fmt.Sprintf("the result changes when it is written and read a second time (error %v)", err))
			}
		}()
	}
	hv.Stats(stats)
}
