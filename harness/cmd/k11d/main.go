// k11d: every diff the real FileDiff.Consume produces goes through the Lean validator Bd.validScript (C11), about which
// validScript_sound is proved.  ops: vs <old line ids> <new line ids> <script>   impl: ok
// (a line id stands for a distinct line string; the script is the sequence of equal/delete/insert runs with their
// line counts).  Go-side: declared old/new line counts agree with CachedBlob.CountLines.
package main

import (
	"fmt"
	"io/ioutil"
	"log"
	"math/rand"
	"strings"
	"unicode/utf8"

	"github.com/sergi/go-diff/diffmatchpatch"
	"gopkg.in/src-d/go-git.v4/plumbing"
	"gopkg.in/src-d/go-git.v4/plumbing/object"
	items "gopkg.in/src-d/hercules.v10/internal/plumbing"
	"gopkg.in/src-d/hercules.v10/verifharness/hv"
)

func split(s string) []string {
	if s == "" {
		return nil
	}
	ls := strings.SplitAfter(s, "\n")
	if ls[len(ls)-1] == "" {
		ls = ls[:len(ls)-1]
	}
	return ls
}

func main() {
	log.SetOutput(ioutil.Discard)
	seed, count, wo, wi, _, done := hv.Args()
	defer done()
	rng := rand.New(rand.NewSource(seed))
	stats := map[string]int{}
	for it := 0; it < count; it++ {
		pool := []string{"a", "b", "c", "a", "", "x y", "é", "\xff\xfe", "line\r"}
		maxLines := 8
		if rng.Intn(2) == 0 {
			pool = []string{"l0", "l1", "l2"}
			maxLines = 10
		}
		mk := func() string {
			n := rng.Intn(maxLines)
			var ls []string
			for i := 0; i < n; i++ {
				ls = append(ls, pool[rng.Intn(len(pool))])
			}
			s := strings.Join(ls, "\n")
			if n > 0 && rng.Intn(3) > 0 {
				s += "\n"
			}
			return s
		}
		a, b := mk(), mk()
		fd := &items.FileDiff{CleanupDisabled: rng.Intn(2) == 0}
		fd.Initialize(nil)
		h1, h2 := plumbing.NewHash("11"), plumbing.NewHash("22")
		b1 := &items.CachedBlob{Data: []byte(a)}
		b2 := &items.CachedBlob{Data: []byte(b)}
		cache := map[plumbing.Hash]*items.CachedBlob{h1: b1, h2: b2}
		ch := &object.Change{From: object.ChangeEntry{Name: "f", TreeEntry: object.TreeEntry{Name: "f", Hash: h1}}, To: object.ChangeEntry{Name: "f", TreeEntry: object.TreeEntry{Name: "f", Hash: h2}}}
		res, err := fd.Consume(map[string]interface{}{items.DependencyTreeChanges: object.Changes{ch}, items.DependencyBlobCache: cache})
		caseJSON := fmt.Sprintf(`{"old":%q,"new":%q,"cleanup_disabled":%v}`, a, b, fd.CleanupDisabled)
		if err != nil {
			fmt.Fprintln(wo, "vs - - -")
			fmt.Fprintln(wi, "error")
			hv.Fail("file-diff", caseJSON, err.Error())
			continue
		}
		d := res[items.DependencyFileDiff].(map[string]items.FileDiffData)["f"]
		l1, _ := b1.CountLines()
		l2, _ := b2.CountLines()
		if d.OldLinesOfCode != l1 || d.NewLinesOfCode != l2 {
			hv.Fail("file-diff", caseJSON, fmt.Sprintf("declared line counts %d/%d, CountLines says %d/%d", d.OldLinesOfCode, d.NewLinesOfCode, l1, l2))
		}
		ids := map[string]int{}
		enc := func(ls []string) string {
			if len(ls) == 0 {
				return "-"
			}
			var out []string
			for _, l := range ls {
				if _, ok := ids[l]; !ok {
					ids[l] = len(ids) + 1
				}
				out = append(out, fmt.Sprint(ids[l]))
			}
			return strings.Join(out, ",")
		}
		var sc []string
		for _, e := range d.Diffs {
			n := utf8.RuneCountInString(e.Text)
			switch e.Type {
			case diffmatchpatch.DiffEqual:
				sc = append(sc, fmt.Sprintf("E%d", n))
			case diffmatchpatch.DiffDelete:
				sc = append(sc, fmt.Sprintf("D%d", n))
			case diffmatchpatch.DiffInsert:
				sc = append(sc, fmt.Sprintf("I%d", n))
			}
		}
		s := strings.Join(sc, ",")
		if s == "" {
			s = "-"
			stats["empty-script"]++
		}
		stats["diffs"]++
		fmt.Fprintf(wo, "vs %s %s %s\n", enc(split(a)), enc(split(b)), s)
		fmt.Fprintln(wi, "ok")
	}
	hv.Stats(stats)
}
