package main

import (
	"fmt"
	"gopkg.in/src-d/hercules.v10/verifharness/hv"
	"io/ioutil"
	"log"
	"math/rand"
	"sort"
	"time"

	"gopkg.in/src-d/go-git.v4"
	"gopkg.in/src-d/go-git.v4/plumbing"
	"gopkg.in/src-d/go-git.v4/plumbing/filemode"
	"gopkg.in/src-d/go-git.v4/plumbing/object"
	"gopkg.in/src-d/go-git.v4/storage/memory"
	"gopkg.in/src-d/hercules.v10/internal/core"
	items "gopkg.in/src-d/hercules.v10/internal/plumbing"
	"gopkg.in/src-d/hercules.v10/leaves"
)

type call struct {
	hash    plumbing.Hash
	index   int
	isMerge bool
	branch  int // instance id
	sawUp   string
}

// recorder: producer (provides "rec_a") forked by copy, so each branch has its own instance id.
type producer struct {
	core.NoopMerger
	id    int
	next  *int
	calls *[]call
}

func (p *producer) Name() string                                         { return "RecProducer" }
func (p *producer) Provides() []string                                   { return []string{"rec_a"} }
func (p *producer) Requires() []string                                   { return []string{} }
func (p *producer) ListConfigurationOptions() []core.ConfigurationOption { return nil }
func (p *producer) Configure(map[string]interface{}) error               { return nil }
func (p *producer) Initialize(*git.Repository) error                     { return nil }
func (p *producer) Consume(deps map[string]interface{}) (map[string]interface{}, error) {
	c := deps[core.DependencyCommit].(*object.Commit)
	return map[string]interface{}{"rec_a": fmt.Sprintf("%s@%d", c.Hash.String()[:6], p.id)}, nil
}
func (p *producer) Fork(n int) []core.PipelineItem {
	res := make([]core.PipelineItem, n)
	for i := range res {
		*p.next++
		res[i] = &producer{id: *p.next, next: p.next, calls: p.calls}
	}
	return res
}

type consumer struct {
	core.NoopMerger
	id    int
	next  *int
	calls *[]call
}

func (p *consumer) Name() string                                         { return "RecConsumer" }
func (p *consumer) Provides() []string                                   { return []string{} }
func (p *consumer) Requires() []string                                   { return []string{"rec_a"} }
func (p *consumer) ListConfigurationOptions() []core.ConfigurationOption { return nil }
func (p *consumer) Configure(map[string]interface{}) error               { return nil }
func (p *consumer) Initialize(*git.Repository) error                     { return nil }
func (p *consumer) Consume(deps map[string]interface{}) (map[string]interface{}, error) {
	c := deps[core.DependencyCommit].(*object.Commit)
	*p.calls = append(*p.calls, call{c.Hash, deps[core.DependencyIndex].(int), deps[core.DependencyIsMerge].(bool), p.id, deps["rec_a"].(string)})
	return nil, nil
}
func (p *consumer) Fork(n int) []core.PipelineItem {
	res := make([]core.PipelineItem, n)
	for i := range res {
		*p.next++
		res[i] = &consumer{id: *p.next, next: p.next, calls: p.calls}
	}
	return res
}

func put(st *memory.Storage, t plumbing.ObjectType, enc func(o plumbing.EncodedObject) error) plumbing.Hash {
	o := st.NewEncodedObject()
	o.SetType(t)
	enc(o)
	hh, _ := st.SetEncodedObject(o)
	return hh
}

func ancestors(parents [][]int) []map[int]bool {
	anc := make([]map[int]bool, len(parents))
	for i := range parents {
		anc[i] = map[int]bool{i: true}
		for _, p := range parents[i] {
			for a := range anc[p] {
				anc[i][a] = true
			}
		}
	}
	return anc
}

func runOne(seed int64, n int) (msg string) {
	defer func() {
		if r := recover(); r != nil {
			msg = fmt.Sprintf("PANIC %v", r)
		}
	}()
	rng := rand.New(rand.NewSource(seed))
	ghosts := seed%3 == 0
	var parents [][]int
	heads := map[int]bool{}
	for c := 0; c < n || len(heads) > 1; c++ {
		var ps []int
		if c >= n {
			var hs []int
			for k := range heads {
				hs = append(hs, k)
			}
			sort.Ints(hs)
			ps = hs[:2]
		} else if c > 0 {
			np := 1
			if c > 1 && rng.Intn(10) < 4 {
				np = 2
			}
			for len(ps) < np {
				p := c - 1 - rng.Intn(min(c, 4))
				dup := false
				for _, q := range ps {
					dup = dup || q == p
				}
				if !dup {
					ps = append(ps, p)
				}
			}
			sort.Ints(ps)
			// drop redundant
			anc := ancestors(parents)
			if len(ps) == 2 && (anc[ps[1]][ps[0]] || anc[ps[0]][ps[1]]) {
				ps = ps[1:]
			}
		}
		parents = append(parents, ps)
		for _, p := range ps {
			delete(heads, p)
		}
		heads[c] = true
	}
	st := memory.NewStorage()
	repo, _ := git.Init(st, nil)
	hashes := make([]plumbing.Hash, len(parents))
	base := time.Date(2020, 1, 1, 0, 0, 0, 0, time.UTC)
	// each commit changes file f<c%3>.txt content => tree differs from every parent
	for c := range parents {
		var entries []object.TreeEntry
		for f := 0; f < 3; f++ {
			data := []byte(fmt.Sprintf("file %d\n", f))
			if c%3 == f || c == 0 {
				data = []byte(fmt.Sprintf("file %d commit %d\nline\n", f, c))
			} else {
				// keep content from the last ancestor that touched f: simplification - constant per f
			}
			bh := put(st, plumbing.BlobObject, func(o plumbing.EncodedObject) error {
				w, _ := o.Writer()
				w.Write(data)
				return w.Close()
			})
			entries = append(entries, object.TreeEntry{Name: fmt.Sprintf("f%d.txt", f), Mode: filemode.Regular, Hash: bh})
		}
		th := put(st, plumbing.TreeObject, (&object.Tree{Entries: entries}).Encode)
		when := base.Add(time.Duration(c*7) * time.Hour)
		a := rng.Intn(3)
		sig := object.Signature{Name: fmt.Sprintf("dev%d", a), Email: fmt.Sprintf("dev%d@x", a), When: when}
		cm := &object.Commit{Author: sig, Committer: sig, Message: fmt.Sprintf("c%d", c), TreeHash: th}
		// now and then a further parent that is not among the analysed commits (first-parent walks, explicit commit
		// lists): the commit has two parent hashes but is replayed as its parents inside the analysed set demand
		ghostAt := -1
		if ghosts && rng.Intn(4) == 0 {
			ghostAt = rng.Intn(len(parents[c]) + 1)
		}
		for k, p := range parents[c] {
			if k == ghostAt {
				cm.ParentHashes = append(cm.ParentHashes, plumbing.NewHash(fmt.Sprintf("ffff%04x00000000000000000000000000000000", c)))
			}
			cm.ParentHashes = append(cm.ParentHashes, hashes[p])
		}
		if ghostAt == len(parents[c]) {
			cm.ParentHashes = append(cm.ParentHashes, plumbing.NewHash(fmt.Sprintf("ffff%04x00000000000000000000000000000000", c)))
		}
		hashes[c] = put(st, plumbing.CommitObject, cm.Encode)
	}
	var commits []*object.Commit
	idx := map[plumbing.Hash]int{}
	for i, hh := range hashes {
		c, _ := repo.CommitObject(hh)
		commits = append(commits, c)
		idx[hh] = i
	}
	pipeline := core.NewPipeline(repo)
	var calls []call
	next := 0
	pipeline.AddItem(&producer{next: &next, calls: &calls})
	pipeline.AddItem(&consumer{next: &next, calls: &calls})
	devs := pipeline.DeployItem(&leaves.DevsAnalysis{}).(*leaves.DevsAnalysis)
	cs := pipeline.DeployItem(&leaves.CommitsAnalysis{}).(*leaves.CommitsAnalysis)
	facts := map[string]interface{}{core.ConfigPipelineCommits: commits}
	if err := pipeline.Initialize(facts); err != nil {
		return "INIT " + err.Error()
	}
	res, err := pipeline.Run(commits)
	if err != nil {
		return "RUN " + err.Error()
	}
	// C14 checks
	perCommit := map[int][]call{}
	for i, c := range calls {
		if c.index != i {
			return fmt.Sprintf("index %d at call %d", c.index, i)
		}
		perCommit[idx[c.hash]] = append(perCommit[idx[c.hash]], c)
	}
	for c := range parents {
		cl := perCommit[c]
		if len(cl) == 0 {
			return fmt.Sprintf("commit %d not consumed", c)
		}
		want := len(parents[c])
		if want == 0 {
			want = 1
		}
		if len(cl) != want {
			return fmt.Sprintf("commit %d consumed %d times, parents %d", c, len(cl), len(parents[c]))
		}
		for _, x := range cl {
			if x.isMerge != (len(cl) > 1) {
				return fmt.Sprintf("commit %d isMerge=%v replays=%d", c, x.isMerge, len(cl))
			}
			if x.sawUp[:6] != hashes[c].String()[:6] {
				return "consumer saw upstream value of another commit"
			}
		}
	}
	common := res[nil].(*core.CommonAnalysisResult)
	if common.CommitsNumber != len(commits) {
		return "CommitsNumber wrong"
	}
	// C12: devs counts each commit exactly once (all commits change files vs each parent here?) - commits total
	dr := res[devs].(leaves.DevsResult)
	totalCommits := 0
	for _, dd := range dr.Ticks {
		for _, d := range dd {
			totalCommits += d.Commits
		}
	}
	cr := res[cs].(leaves.CommitsResult)
	seen := map[string]int{}
	for _, c := range cr.Commits {
		seen[c.Hash]++
	}
	nonMerge := 0
	for c := range parents {
		if len(parents[c]) <= 1 {
			nonMerge++
			if seen[hashes[c].String()] != 1 {
				return fmt.Sprintf("commit %d listed %d times in CommitsStat", c, seen[hashes[c].String()])
			}
		} else if seen[hashes[c].String()] != 0 {
			return "merge commit listed in CommitsStat"
		}
	}
	if totalCommits > len(parents) {
		return fmt.Sprintf("devs counted %d commits of %d", totalCommits, len(parents))
	}
	_ = items.DependencyTick
	return fmt.Sprintf("ok devs=%d/%d", totalCommits, len(parents))
}

func min(a, b int) int {
	if a < b {
		return a
	}
	return b
}

func main() {
	log.SetOutput(ioutil.Discard)
	hv.RunOracle(func(cs int64, extra []string) (string, string, string, []string) {
		n := 3 + int(cs%12)
		m := runOne(cs, n)
		var tags []string
		if len(m) > 2 && m[:2] == "ok" {
			var a, b int
			fmt.Sscanf(m, "ok devs=%d/%d", &a, &b)
			if a != b {
				tags = append(tags, "devs-counted-less-than-commits")
			}
			m = ""
		}
		return fmt.Sprintf(`{"seed":%d,"commits":%d}`, cs, n), "recorded-run", m, tags
	})
}
