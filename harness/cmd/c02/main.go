package main

import (
	"fmt"
	"io/ioutil"
	"log"
	"os"

	"gopkg.in/src-d/go-git.v4/plumbing"
	"gopkg.in/src-d/go-git.v4/plumbing/object"
	"gopkg.in/src-d/hercules.v10/internal/core"
)

const (
	aCommit = 0
	aFork   = 1
	aMerge  = 2
	aEmerge = 3
	aDelete = 4
)

func ancestors(parents [][]int) []map[int]bool {
	anc := make([]map[int]bool, len(parents))
	for i := range parents {
		anc[i] = map[int]bool{i: true}
		for _, p := range parents[i] {
			for a := range anc[p] {
				anc[i][a] = true
			}
		}
	}
	return anc
}

func setEq(a, b map[int]bool) bool {
	if len(a) != len(b) {
		return false
	}
	for k := range a {
		if !b[k] {
			return false
		}
	}
	return true
}

func check(parents [][]int, hashes []plumbing.Hash, plan []core.VerifAction) string {
	idx := map[plumbing.Hash]int{}
	for i, h := range hashes {
		idx[h] = i
	}
	anc := ancestors(parents)
	type br struct {
		set  map[int]bool
		last int
	}
	branches := map[int]*br{}
	analysed := map[int]int{}
	for pi, a := range plan {
		switch a.Action {
		case aEmerge:
			if _, ok := branches[a.Items[0]]; ok {
				return fmt.Sprintf("step %d: emerge existing", pi)
			}
			branches[a.Items[0]] = &br{map[int]bool{}, -1}
		case aCommit:
			b := branches[a.Items[0]]
			if b == nil {
				return fmt.Sprintf("step %d: commit on dead branch", pi)
			}
			c := idx[a.Commit.Hash]
			analysed[c]++
			ps := map[int]bool{}
			for _, p := range parents[c] {
				ps[p] = true
			}
			if len(ps) == 0 {
				if len(b.set) != 0 {
					return fmt.Sprintf("step %d: root on nonempty branch", pi)
				}
			} else {
				if !ps[b.last] {
					return fmt.Sprintf("step %d: last not a parent", pi)
				}
				if !setEq(b.set, anc[b.last]) {
					return fmt.Sprintf("step %d: branch set != anc(last)", pi)
				}
			}
			nb := map[int]bool{c: true}
			for k := range b.set {
				nb[k] = true
			}
			b.set = nb
			b.last = c
		case aFork:
			src := branches[a.Items[0]]
			if src == nil {
				return fmt.Sprintf("step %d: fork of dead branch", pi)
			}
			for _, it := range a.Items[1:] {
				if _, ok := branches[it]; ok {
					return fmt.Sprintf("step %d: fork target exists", pi)
				}
				branches[it] = &br{src.set, src.last}
			}
		case aMerge:
			u := map[int]bool{}
			last := -2
			seen := map[int]bool{}
			for _, it := range a.Items {
				if seen[it] {
					return fmt.Sprintf("step %d: merge dup", pi)
				}
				seen[it] = true
				b := branches[it]
				if b == nil {
					return fmt.Sprintf("step %d: merge dead", pi)
				}
				if last == -2 {
					last = b.last
				} else if last != b.last {
					return fmt.Sprintf("step %d: merge different last", pi)
				}
				for k := range b.set {
					u[k] = true
				}
			}
			if !setEq(u, anc[last]) {
				return fmt.Sprintf("step %d: merged set != anc", pi)
			}
			for _, it := range a.Items {
				branches[it].set = u
			}
		case aDelete:
			if branches[a.Items[0]] == nil {
				return fmt.Sprintf("step %d: delete dead", pi)
			}
			delete(branches, a.Items[0])
		}
	}
	for c := range parents {
		if analysed[c] == 0 {
			return fmt.Sprintf("commit %d never analysed", c)
		}
	}
	return ""
}

func perms(n int) [][]int {
	if n == 0 {
		return [][]int{{}}
	}
	var res [][]int
	for _, p := range perms(n - 1) {
		for i := 0; i <= len(p); i++ {
			q := append([]int{}, p[:i]...)
			q = append(q, n-1)
			q = append(q, p[i:]...)
			res = append(res, q)
		}
	}
	return res
}

func connected(parents [][]int) bool {
	n := len(parents)
	adj := make([][]int, n)
	for i, ps := range parents {
		for _, p := range ps {
			adj[i] = append(adj[i], p)
			adj[p] = append(adj[p], i)
		}
	}
	seen := map[int]bool{0: true}
	st := []int{0}
	for len(st) > 0 {
		h := st[len(st)-1]
		st = st[:len(st)-1]
		for _, x := range adj[h] {
			if !seen[x] {
				seen[x] = true
				st = append(st, x)
			}
		}
	}
	return len(seen) == n
}

func main() {
	log.SetOutput(ioutil.Discard)
	N := 5
	fmt.Sscan(os.Args[1], &N)
	out, _ := os.Create(os.Args[2])
	defer out.Close()
	ps := perms(N)
	if N > 5 {
		var q [][]int
		for i, p := range ps {
			if i%7 == 0 {
				q = append(q, p)
			}
		}
		ps = q
	}
	total, bad := 0, 0
	var rec func(parents [][]int)
	rec = func(parents [][]int) {
		i := len(parents)
		if i == N {
			if !connected(parents) {
				return
			}
			if os.Getenv("SINGLEROOT") != "" {
				roots := 0
				for _, p := range parents {
					if len(p) == 0 {
						roots++
					}
				}
				if roots != 1 {
					return
				}
			}
			for _, perm := range ps {
				hashes := make([]plumbing.Hash, N)
				for k := 0; k < N; k++ {
					hashes[k] = plumbing.NewHash(fmt.Sprintf("%02x00000000000000000000000000000000000000", perm[k]+1))
				}
				cs := make([]*object.Commit, N)
				for k := range parents {
					c := &object.Commit{Hash: hashes[k]}
					for _, p := range parents[k] {
						c.ParentHashes = append(c.ParentHashes, hashes[p])
					}
					cs[k] = c
				}
				var msg string
				// run several times because of map-order nondeterminism
				for rep := 0; rep < 3 && msg == ""; rep++ {
					func() {
						defer func() {
							if r := recover(); r != nil {
								msg = fmt.Sprintf("PANIC %v", r)
							}
						}()
						msg = check(parents, hashes, core.VerifPrepareRunPlan(cs, 0))
					}()
				}
				total++
				if msg != "" {
					bad++
					fmt.Fprintln(out, parents, perm)
				}
			}
			return
		}
		for mask := 0; mask < 1<<uint(i); mask++ {
			var p []int
			for k := 0; k < i; k++ {
				if mask&(1<<uint(k)) != 0 {
					p = append(p, k)
				}
			}
			if len(p) > 3 {
				continue
			}
			rec(append(parents, p))
		}
	}
	rec(nil)
	fmt.Println("N", N, "total", total, "bad", bad)
}
