package main

// Pipeline.Run vs. the Lean interpreter model: recording items, random DAGs, error injection.
import (
	"encoding/json"
	"errors"
	"fmt"
	"io"
	"math/rand"
	"os"
	"sort"
	"strconv"
	"strings"
	"time"

	"gopkg.in/src-d/go-git.v4"
	"gopkg.in/src-d/go-git.v4/plumbing"
	"gopkg.in/src-d/go-git.v4/plumbing/object"
	"gopkg.in/src-d/go-git.v4/storage/memory"
	"gopkg.in/src-d/hercules.v10/internal/core"
	"gopkg.in/src-d/hercules.v10/verifharness/hv"
)

type spec struct {
	provides, requires        []int
	full, shared              bool
	cfail, omit, hfail, bfail int
}

type cev struct {
	inst, pos, commit, index int
	merge                    bool
	deps                     map[int]string
	lin                      []int // commits this instance (or the instances it was forked from / merged with) consumed before
}

type world struct {
	// lifecycle of the instances that fork by copy: which are hibernated now, and the first misuse seen
	asleep     map[int]bool
	sleepBug   string
	cevs       []cev
	triggered  []string
	next       int
	log        []string
	cc, hc, bc []int
	specs      []spec               // by position in resolved order
	lin        map[int]map[int]bool // lineage per instance: what it and its fork origins / merge partners consumed
	cidx       map[plumbing.Hash]int
}

type rec struct {
	w    *world
	orig int // creation number
	pos  int // position in resolved order
	inst int
}

func ent(e int) string { return fmt.Sprintf("e%d", e) }

func (r *rec) sp() *spec    { return &r.w.specs[r.pos] }
func (r *rec) Name() string { return fmt.Sprintf("R%02d", r.orig) }
func (r *rec) Provides() []string {
	var res []string
	for _, e := range origSpecs[r.orig].provides {
		res = append(res, ent(e))
	}
	return res
}
func (r *rec) Requires() []string {
	res := []string{}
	for _, e := range origSpecs[r.orig].requires {
		res = append(res, ent(e))
	}
	return res
}
func (r *rec) ListConfigurationOptions() []core.ConfigurationOption { return nil }
func (r *rec) Configure(map[string]interface{}) error               { return nil }
func (r *rec) Initialize(*git.Repository) error                     { return nil }
func (r *rec) Consume(deps map[string]interface{}) (map[string]interface{}, error) {
	w := r.w
	r.used("consumes a commit")
	s := r.sp()
	w.cc[r.pos]++
	k := w.cc[r.pos]
	c := w.cidx[deps[core.DependencyCommit].(*object.Commit).Hash]
	m := 0
	if deps[core.DependencyIsMerge].(bool) {
		m = 1
	}
	var ds []string
	dm := map[int]string{}
	for _, e := range s.requires {
		if v, ok := deps[ent(e)]; ok {
			ds = append(ds, fmt.Sprintf("%d=%s", e, v.(string)))
			dm[e] = v.(string)
		} else {
			ds = append(ds, fmt.Sprintf("%d=nil", e))
			dm[e] = "nil"
		}
	}
	var before []int
	if w.lin == nil {
		w.lin = map[int]map[int]bool{}
	}
	for x := range w.lin[r.inst] {
		before = append(before, x)
	}
	sort.Ints(before)
	if w.lin[r.inst] == nil {
		w.lin[r.inst] = map[int]bool{}
	}
	w.lin[r.inst][c] = true
	w.cevs = append(w.cevs, cev{r.inst, r.pos, c, deps[core.DependencyIndex].(int), m == 1, dm, before})
	w.log = append(w.log, fmt.Sprintf("C%d:%d:%d:%d:%s", r.inst, c, deps[core.DependencyIndex].(int), m, strings.Join(ds, ",")))
	if s.cfail == k {
		w.triggered = append(w.triggered, "consume-error")
		return nil, fmt.Errorf("consume-error item %d", r.pos)
	}
	out := map[string]interface{}{}
	for i, e := range s.provides {
		if i == 0 && s.omit == k {
			w.triggered = append(w.triggered, "omitted-output")
			continue
		}
		out[ent(e)] = fmt.Sprintf("%d@%d", r.inst, c)
	}
	return out, nil
}

// used: an instance that is hibernated must not take part in anything until it is booted (C04, execution side)
func (r *rec) used(what string) {
	if !r.sp().shared && r.w.asleep[r.inst] && r.w.sleepBug == "" {
		r.w.sleepBug = fmt.Sprintf("instance %d of item %d %s while it is hibernated", r.inst, r.pos, what)
	}
}

func (r *rec) forkIDs(n int) []int {
	r.used("is forked")
	ids := make([]int, n)
	for i := range ids {
		if r.sp().shared {
			ids[i] = r.inst
		} else {
			ids[i] = r.w.next
			r.w.next++
			if r.w.lin == nil {
				r.w.lin = map[int]map[int]bool{}
			}
			cp := map[int]bool{}
			for x := range r.w.lin[r.inst] {
				cp[x] = true
			}
			r.w.lin[ids[i]] = cp
		}
	}
	r.w.log = append(r.w.log, fmt.Sprintf("F%d>%s", r.inst, lst(ids)))
	return ids
}
func lst(ids []int) string {
	var ss []string
	for _, i := range ids {
		ss = append(ss, strconv.Itoa(i))
	}
	return "[" + strings.Join(ss, ", ") + "]"
}
func (r *rec) logMerge(others []int) {
	r.used("takes part in a merge")
	for _, o := range others {
		if !r.sp().shared && r.w.asleep[o] && r.w.sleepBug == "" {
			r.w.sleepBug = fmt.Sprintf("instance %d of item %d takes part in a merge while it is hibernated", o, r.pos)
		}
	}
	if !r.sp().shared {
		if r.w.lin == nil {
			r.w.lin = map[int]map[int]bool{}
		}
		u := map[int]bool{}
		for _, o := range append([]int{r.inst}, others...) {
			for x := range r.w.lin[o] {
				u[x] = true
			}
		}
		for _, o := range append([]int{r.inst}, others...) {
			cp := map[int]bool{}
			for x := range u {
				cp[x] = true
			}
			r.w.lin[o] = cp
		}
	}
	r.w.log = append(r.w.log, fmt.Sprintf("M%d<%s", r.inst, lst(others)))
}

type recP struct{ rec }

func (r *recP) Fork(n int) []core.PipelineItem {
	res := make([]core.PipelineItem, n)
	for i, id := range r.forkIDs(n) {
		if r.sp().shared {
			res[i] = r
		} else {
			res[i] = &recP{rec{r.w, r.orig, r.pos, id}}
		}
	}
	return res
}
func (r *recP) Merge(bs []core.PipelineItem) {
	var o []int
	for _, b := range bs {
		o = append(o, b.(*recP).inst)
	}
	r.logMerge(o)
}

type recF struct{ rec }

func (r *recF) Fork(n int) []core.PipelineItem {
	res := make([]core.PipelineItem, n)
	for i, id := range r.forkIDs(n) {
		if r.sp().shared {
			res[i] = r
		} else {
			res[i] = &recF{rec{r.w, r.orig, r.pos, id}}
		}
	}
	return res
}
func (r *recF) Merge(bs []core.PipelineItem) {
	var o []int
	for _, b := range bs {
		o = append(o, b.(*recF).inst)
	}
	r.logMerge(o)
}
func (r *recF) Hibernate() error {
	if !r.sp().shared {
		if r.w.asleep == nil {
			r.w.asleep = map[int]bool{}
		}
		if r.w.asleep[r.inst] && r.w.sleepBug == "" {
			r.w.sleepBug = fmt.Sprintf("instance %d of item %d is hibernated twice", r.inst, r.pos)
		}
		r.w.asleep[r.inst] = true
	}
	r.w.hc[r.pos]++
	r.w.log = append(r.w.log, fmt.Sprintf("H%d", r.inst))
	if r.sp().hfail == r.w.hc[r.pos] {
		r.w.triggered = append(r.w.triggered, "hibernate-error")
		return fmt.Errorf("hibernate-error item %d", r.pos)
	}
	return nil
}
func (r *recF) Boot() error {
	if !r.sp().shared {
		if !r.w.asleep[r.inst] && r.w.sleepBug == "" {
			r.w.sleepBug = fmt.Sprintf("instance %d of item %d is booted while it is awake", r.inst, r.pos)
		}
		delete(r.w.asleep, r.inst)
	}
	r.w.bc[r.pos]++
	r.w.log = append(r.w.log, fmt.Sprintf("B%d", r.inst))
	if r.sp().bfail == r.w.bc[r.pos] {
		r.w.triggered = append(r.w.triggered, "boot-error")
		return fmt.Errorf("boot-error item %d", r.pos)
	}
	return nil
}
func (r *recF) Dispose() {
	r.used("is disposed")
	r.w.log = append(r.w.log, fmt.Sprintf("D%d", r.inst))
}
func (r *recF) Flag() string        { return fmt.Sprintf("r%02d", r.orig) }
func (r *recF) Description() string { return "" }
func (r *recF) Finalize() interface{} {
	r.used("is finalized")
	r.w.log = append(r.w.log, fmt.Sprintf("Z%d:%d", r.pos, r.inst))
	return r.inst
}
func (r *recF) Serialize(interface{}, bool, io.Writer) error { return errors.New("no") }

var origSpecs []spec

func opt(k int) string {
	if k == 0 {
		return "-"
	}
	return strconv.Itoa(k)
}
func il(l []int) string {
	if len(l) == 0 {
		return "-"
	}
	var ss []string
	for _, i := range l {
		ss = append(ss, strconv.Itoa(i))
	}
	return strings.Join(ss, ",")
}

func genParents(rng *rand.Rand, n int) [][]int {
	var parents [][]int
	if n >= 8 && rng.Intn(6) == 0 {
		// a fan: 4-6 parallel branches of 1-2 commits from one root, joined by a single octopus merge (several
		// branches lie idle - and are hibernated at small distances - until the merge boots them all at once)
		k := 4 + rng.Intn(3)
		parents = append(parents, nil)
		var tips []int
		for b := 0; b < k; b++ {
			parents = append(parents, []int{0})
			if rng.Intn(2) == 0 {
				parents = append(parents, []int{len(parents) - 1})
			}
			tips = append(tips, len(parents)-1)
		}
		rng.Shuffle(len(tips), func(i, j int) { tips[i], tips[j] = tips[j], tips[i] })
		parents = append(parents, tips)
		for rng.Intn(2) == 0 {
			parents = append(parents, []int{len(parents) - 1})
		}
		return parents
	}
	for c := 0; c < n; c++ {
		var ps []int
		if c > 0 && rng.Intn(12) != 0 {
			np := 1
			r := rng.Intn(10)
			if c > 1 && r < 4 {
				np = 2
			}
			if c > 2 && r == 0 {
				np = 3
			}
			for tries := 0; len(ps) < np && tries < 20; tries++ {
				p := c - 1 - rng.Intn(min(c, 5))
				dup := false
				for _, q := range ps {
					dup = dup || q == p
				}
				if !dup {
					ps = append(ps, p)
				}
			}
		}
		parents = append(parents, ps)
	}
	return parents
}

func main() {
	seed, count, wo, wi, _, done := hv.Args()
	defer done()
	errs, hibs, merges, adjChecked := 0, 0, 0, 0
	for it := 0; it < count; it++ {
		rng := rand.New(rand.NewSource(seed + int64(it)))
		n := 1 + rng.Intn(14)
		parents := genParents(rng, n)
		n = len(parents)
		commits := make([]*object.Commit, n)
		w := &world{cidx: map[plumbing.Hash]int{}}
		times := make([]int64, n)
		for c := range parents {
			var h plumbing.Hash
			rng.Read(h[:])
			times[c] = int64(rng.Intn(2000)) - 200
			sig := object.Signature{Name: "a", Email: "a@x", When: time.Unix(times[c], 0)}
			cm := &object.Commit{Hash: h, Author: sig, Committer: sig}
			for _, p := range parents[c] {
				cm.ParentHashes = append(cm.ParentHashes, commits[p].Hash)
			}
			commits[c] = cm
			w.cidx[h] = c
		}
		// items
		ni := 1 + rng.Intn(5)
		origSpecs = nil
		nent := 0
		failing := rng.Intn(3) == 0
		for j := 0; j < ni; j++ {
			var s spec
			for k := rng.Intn(3); k > 0; k-- {
				s.provides = append(s.provides, nent)
				nent++
			}
			for e := 0; e < nent-len(s.provides); e++ {
				if rng.Intn(3) == 0 {
					s.requires = append(s.requires, e)
				}
			}
			s.full = rng.Intn(2) == 0
			s.shared = rng.Intn(4) == 0
			if failing && rng.Intn(2) == 0 {
				switch rng.Intn(4) {
				case 0:
					s.cfail = 1 + rng.Intn(2*n)
				case 1:
					if len(s.provides) > 0 {
						s.omit = 1 + rng.Intn(2*n)
					}
				case 2:
					s.hfail = 1 + rng.Intn(4)
				case 3:
					s.bfail = 1 + rng.Intn(4)
				}
			}
			origSpecs = append(origSpecs, s)
		}
		repo, _ := git.Init(memory.NewStorage(), nil)
		pipeline := core.NewPipeline(repo)
		recs := make([]*rec, ni)
		for j, s := range origSpecs {
			if s.full {
				r := &recF{rec{w, j, -1, -1}}
				recs[j] = &r.rec
				pipeline.AddItem(r)
			} else {
				r := &recP{rec{w, j, -1, -1}}
				recs[j] = &r.rec
				pipeline.AddItem(r)
			}
		}
		pipeline.HibernationDistance = rng.Intn(4)
		if err := pipeline.Initialize(map[string]interface{}{core.ConfigPipelineCommits: commits}); err != nil {
			fmt.Fprintln(os.Stderr, "INIT", err)
			continue
		}
		for pos, item := range pipeline.VerifItems() {
			var r *rec
			switch x := item.(type) {
			case *recF:
				r = &x.rec
			case *recP:
				r = &x.rec
			}
			r.pos, r.inst = pos, pos
			w.specs = append(w.specs, origSpecs[r.orig])
		}
		w.next = ni
		w.cc, w.hc, w.bc = make([]int, ni), make([]int, ni), make([]int, ni)
		var plan []core.VerifAction
		core.VerifOnPlan = func(p []core.VerifAction) { plan = p }
		// shuffle input order of commits? Run takes them in given order (planner sorts by hash maps)
		res, err := func() (res map[core.LeafPipelineItem]interface{}, err error) {
			defer func() {
				if r := recover(); r != nil {
					err = fmt.Errorf("PANIC %v", r)
				}
			}()
			return pipeline.Run(commits)
		}()
		var items []string
		for _, s := range w.specs {
			f := ""
			if s.full {
				f += "f"
			}
			if s.shared {
				f += "s"
			}
			if f == "" {
				f = "-"
			}
			items = append(items, fmt.Sprintf("%s/%s/%s/%s/%s/%s/%s", il(s.provides), il(s.requires), f, opt(s.cfail), opt(s.omit), opt(s.hfail), opt(s.bfail)))
		}
		var ts []string
		for _, t := range times {
			ts = append(ts, strconv.FormatInt(t, 10))
		}
		var acts []string
		for _, a := range plan {
			c := 0
			if a.Commit != nil {
				c = w.cidx[a.Commit.Hash]
			}
			acts = append(acts, fmt.Sprintf("%c:%d:%s", "CFMEDHB"[a.Action], c, il(a.Items)))
			if a.Action == 5 {
				hibs++
			}
			if a.Action == 2 {
				merges++
			}
		}
		fmt.Fprintf(wo, "run2 %s %s %d %s\n", strings.Join(items, ";"), strings.Join(ts, ","), n, strings.Join(acts, " "))
		var outcome string
		if err == nil && res == nil {
			outcome = "neither result nor error"
			err = nil
		} else if err != nil {
			errs++
			msg := err.Error()
			// "<name>: Consume() did not return e<k>"
			if i := strings.Index(msg, ": Consume() did not return e"); i >= 0 {
				orig, _ := strconv.Atoi(msg[1:i])
				e := msg[i+len(": Consume() did not return e"):]
				msg = fmt.Sprintf("missing-output item %d entity %s", recs[orig].pos, e)
			}
			outcome = "err " + msg
		} else {
			common := res[nil].(*core.CommonAnalysisResult)
			type fe struct{ j, inst int }
			var fin []fe
			for k, v := range res {
				if k == nil {
					continue
				}
				fin = append(fin, fe{k.(*recF).pos, v.(int)})
			}
			sort.Slice(fin, func(a, b int) bool { return fin[a].j < fin[b].j })
			var fs []string
			for _, f := range fin {
				fs = append(fs, fmt.Sprintf("(%d, %d)", f.j, f.inst))
			}
			outcome = fmt.Sprintf("ok %d %d %d [%s]", common.BeginTime, common.EndTime, common.CommitsNumber, strings.Join(fs, ", "))
		}
		fmt.Fprintf(wi, "%s => %s\n", strings.Join(w.log, " "), outcome)
		if !hasRedundantEdge(parents) {
			// premise of the merge-flag theorem (Pl.isMerge_of_adjOK): replays of a commit are adjacent in the plan
			fmt.Fprintf(wo, "adj %s\n", strings.Join(acts, " "))
			fmt.Fprintln(wi, "true")
			adjChecked++
		}
		cls, what := oracle(w, plan, times, n, ni, err, res)
		if what == "" {
			cls, what = lineageOracle(w, parents)
		}
		if what == "" && len(w.triggered) == 0 {
			// execution side of C04: nothing happens to a hibernated instance before it is booted, and after a
			// successful run nothing is left hibernated
			if w.sleepBug != "" {
				cls, what = "run-hibernation", w.sleepBug
			} else if err == nil && len(w.asleep) > 0 {
				cls, what = "run-hibernation", fmt.Sprintf("%d item instances are left hibernated after a successful run", len(w.asleep))
			}
		}
		if what != "" {
			if (cls == "run-log" || cls == "run-lineage") && hasRedundantEdge(parents) {
				// the plan itself is in a known-finding class of C02 (extra replay / dropped merge on graphs with a
				// fast-forward parent edge): replays of a merge commit are then not adjacent and the merge flag is off
				cls = "redundant-parent-edge"
			}
			js, _ := json.Marshal(map[string]interface{}{"seed": seed + int64(it), "parents": parents, "times": times,
				"items": items, "distance": pipeline.HibernationDistance, "plan": acts})
			hv.Fail(cls, string(js), what)
		}
	}
	hv.Stats(map[string]int{"runs": count, "errors": errs, "hibernates": hibs, "merges": merges, "plans_adjacency_premise_checked": adjChecked})
}

// oracle states C14 on the recorded run of the real Pipeline.Run (no model involved).
func oracle(w *world, plan []core.VerifAction, times []int64, n, ni int, runErr error,
	res map[core.LeafPipelineItem]interface{}) (string, string) {
	// an injected failure that was reached must abort the run with an error, and only then
	if runErr == nil && res == nil {
		return "run-log", "Run returned neither a result nor an error"
	}
	if len(w.triggered) > 0 && runErr == nil {
		return "run-log", "injected " + w.triggered[0] + " did not abort the run with an error"
	}
	if len(w.triggered) == 0 && runErr != nil {
		return "run-log", "run failed without an injected failure: " + runErr.Error()
	}
	replays := map[int]int{}
	for _, a := range plan {
		if a.Action == 0 {
			replays[w.cidx[a.Commit.Hash]]++
		}
	}
	k := 0
	step := 0
	first := -1
	var newest int64
	seen := false
	for _, a := range plan {
		if a.Action != 0 {
			continue
		}
		c := w.cidx[a.Commit.Hash]
		if first < 0 {
			first = c
		}
		if !seen || times[c] > newest {
			newest, seen = times[c], true
		}
		provider := map[int]int{} // entity -> instance that produced it in this step
		for pos := 0; pos < ni; pos++ {
			if k >= len(w.cevs) {
				if runErr != nil {
					return "", "" // aborted run: the log simply stops
				}
				return "run-log", fmt.Sprintf("step %d: item %d was not invoked", step, pos)
			}
			e := w.cevs[k]
			k++
			if e.pos != pos || e.commit != c {
				return "run-log", fmt.Sprintf("step %d: expected item %d on commit %d, got item %d on commit %d", step, pos, c, e.pos, e.commit)
			}
			if e.index != step {
				return "run-log", fmt.Sprintf("step %d: item %d received index %d", step, pos, e.index)
			}
			if e.merge != (replays[c] > 1) {
				return "run-log", fmt.Sprintf("step %d: merge flag %v but commit %d is replayed %d time(s)", step, e.merge, c, replays[c])
			}
			for ent, v := range e.deps {
				inst, ok := provider[ent]
				want := fmt.Sprintf("%d@%d", inst, c)
				if !ok {
					want = "nil" // cannot happen in a resolved pipeline unless the provider omitted its output
				}
				if v != want && !(runErr != nil && k == len(w.cevs)) {
					return "run-log", fmt.Sprintf("step %d: item %d sees %s for entity %d, the last upstream provider produced %s", step, pos, v, ent, want)
				}
			}
			sp := w.specs[pos]
			for i, ent := range sp.provides {
				if i == 0 && sp.omit == w.ccAt(k-1, pos) {
					continue
				}
				provider[ent] = e.inst
			}
		}
		step++
	}
	if runErr != nil {
		return "", ""
	}
	if k != len(w.cevs) {
		return "run-log", fmt.Sprintf("%d Consume calls beyond the planned steps", len(w.cevs)-k)
	}
	common := res[nil].(*core.CommonAnalysisResult)
	if common.CommitsNumber != n {
		return "run-log", fmt.Sprintf("summary reports %d commits, the input has %d", common.CommitsNumber, n)
	}
	if first >= 0 && common.BeginTime != times[first] {
		return "run-log", fmt.Sprintf("summary begin time %d, first planned commit has %d", common.BeginTime, times[first])
	}
	if seen && common.EndTime != newest {
		if newest < 0 {
			return "all-commits-before-1970", fmt.Sprintf("summary end time %d, newest committer time %d", common.EndTime, newest)
		}
		return "run-log", fmt.Sprintf("summary end time %d, newest committer time %d", common.EndTime, newest)
	}
	return "", ""
}

// ccAt: which Consume call (1-based) of the item at position pos was event number k
func (w *world) ccAt(k, pos int) int {
	cnt := 0
	for i := 0; i <= k && i < len(w.cevs); i++ {
		if w.cevs[i].pos == pos {
			cnt++
		}
	}
	return cnt
}

// lineageOracle states C02 on the execution: every replay of a commit by a mergeable, per-branch item instance
// happens on an instance whose lineage (what it, its fork origins and its merge partners consumed so far) is
// exactly one parent of the commit together with that parent's ancestors - or nothing at all for a root commit.
func lineageOracle(w *world, parents [][]int) (string, string) {
	anc := make([]map[int]bool, len(parents))
	for i := range parents {
		anc[i] = map[int]bool{i: true}
		for _, p := range parents[i] {
			for a := range anc[p] {
				anc[i][a] = true
			}
		}
	}
	for _, e := range w.cevs {
		sp := w.specs[e.pos]
		if !sp.full || sp.shared {
			continue
		}
		ok := len(parents[e.commit]) == 0 && len(e.lin) == 0
		for _, p := range parents[e.commit] {
			if len(e.lin) == len(anc[p]) {
				same := true
				for _, x := range e.lin {
					if !anc[p][x] {
						same = false
					}
				}
				if same {
					ok = true
				}
			}
		}
		if !ok {
			return "run-lineage", fmt.Sprintf("commit %d (parents %v) was replayed on an instance of item %d that had consumed %v: not the ancestry of one of its parents",
				e.commit, parents[e.commit], e.pos, e.lin)
		}
	}
	return "", ""
}

func hasRedundantEdge(parents [][]int) bool {
	anc := make([]map[int]bool, len(parents))
	for i := range parents {
		anc[i] = map[int]bool{i: true}
		for _, p := range parents[i] {
			for a := range anc[p] {
				anc[i][a] = true
			}
		}
	}
	for _, ps := range parents {
		for _, p := range ps {
			for _, q := range ps {
				if p != q && anc[q][p] {
					return true
				}
			}
		}
	}
	return false
}

func min(a, b int) int {
	if a < b {
		return a
	}
	return b
}
