package main

import (
	"bytes"
	"encoding/json"
	"fmt"
	"io/ioutil"
	"log"
	"math/rand"
	"os"
	"sort"
	"strings"
	"time"

	"gopkg.in/src-d/go-git.v4"
	"gopkg.in/src-d/go-git.v4/plumbing"
	"gopkg.in/src-d/go-git.v4/plumbing/filemode"
	"gopkg.in/src-d/go-git.v4/plumbing/object"
	"gopkg.in/src-d/go-git.v4/storage/memory"
	"gopkg.in/src-d/hercules.v10/internal/core"
	"gopkg.in/src-d/hercules.v10/internal/plumbing/identity"
	"gopkg.in/src-d/hercules.v10/leaves"
	"gopkg.in/src-d/hercules.v10/verifharness/hv"
)

type line struct {
	id    int
	file  int
	pos   float64
	birth int
	death int
}

type hist struct {
	parents [][]int
	author  []int
	lines   []*line
	nfiles  int
}

func ancestors(parents [][]int) []map[int]bool {
	anc := make([]map[int]bool, len(parents))
	for i := range parents {
		anc[i] = map[int]bool{i: true}
		for _, p := range parents[i] {
			for a := range anc[p] {
				anc[i][a] = true
			}
		}
	}
	return anc
}

func gen(rng *rand.Rand, n int, allowRedundant, roots, octo, volatile bool) *hist {
	h := &hist{nfiles: 2}
	if volatile {
		h.nfiles = 3 + rng.Intn(2)
	}
	nextID := 0
	addLines := func(c, k int) {
		for i := 0; i < k; i++ {
			h.lines = append(h.lines, &line{nextID, rng.Intn(h.nfiles), rng.Float64(), c, -1})
			nextID++
		}
	}
	heads := map[int]bool{}
	for c := 0; c < n; c++ {
		var ps []int
		if c > 0 && !(c == 1 && roots) {
			np := 1
			if c > 3 && octo && rng.Intn(10) < 2 {
				np = 3
			}
			if c > 1 && rng.Intn(10) < 3 {
				np = 2
			}
			for tries := 0; len(ps) < np && tries < 20; tries++ {
				p := c - 1 - rng.Intn(min(c, 4))
				ok := true
				for _, q := range ps {
					if q == p {
						ok = false
					}
				}
				if ok {
					ps = append(ps, p)
				}
			}
			sort.Ints(ps)
		}
		h.parents = append(h.parents, ps)
		if (!allowRedundant || len(ps) >= 3) && len(ps) >= 2 {
			anc := ancestors(h.parents)
			var keep []int
			for _, p := range ps {
				red := false
				for _, q := range ps {
					if p != q && anc[q][p] {
						red = true
					}
				}
				if !red {
					keep = append(keep, p)
				}
			}
			h.parents[c] = keep
			ps = keep
		}
		for _, p := range ps {
			delete(heads, p)
		}
		heads[c] = true
		h.author = append(h.author, rng.Intn(3))
		anc := ancestors(h.parents)
		if len(ps) == 0 {
			addLines(c, 6)
			// make sure each file has an immortal line
			for f := 0; f < 2; f++ { // files 0 and 1 never disappear; the others may be deleted and re-created
				h.lines = append(h.lines, &line{nextID, f, rng.Float64(), c, -2})
				nextID++
			}
		} else {
			if len(ps) == 1 {
				addLines(c, rng.Intn(4))
				wipe := -1
				if h.nfiles > 2 && rng.Intn(6) == 0 {
					wipe = 2 + rng.Intn(h.nfiles-2) // delete a whole file
				}
				for _, l := range h.lines {
					if l.death == -1 && anc[c][l.birth] && l.birth != c && (rng.Intn(6) == 0 || l.file == wipe) {
						l.death = c
					}
				}
			} else if len(ps) > 1 && rng.Intn(2) == 0 {
				addLines(c, rng.Intn(3))
			}
		}
	}
	// join heads
	for len(heads) > 1 {
		var hs []int
		for k := range heads {
			hs = append(hs, k)
		}
		sort.Ints(hs)
		c := len(h.parents)
		h.parents = append(h.parents, []int{hs[0], hs[1]})
		h.author = append(h.author, rng.Intn(3))
		delete(heads, hs[0])
		delete(heads, hs[1])
		heads[c] = true
	}
	return h
}

func min(a, b int) int {
	if a < b {
		return a
	}
	return b
}

func (h *hist) content(c int, anc []map[int]bool, file int) []*line {
	var ls []*line
	for _, l := range h.lines {
		if l.file == file && anc[c][l.birth] && (l.death < 0 || !anc[c][l.death]) {
			ls = append(ls, l)
		}
	}
	sort.Slice(ls, func(i, j int) bool { return ls[i].pos < ls[j].pos })
	return ls
}

func put(st *memory.Storage, t plumbing.ObjectType, enc func(o plumbing.EncodedObject) error) plumbing.Hash {
	o := st.NewEncodedObject()
	o.SetType(t)
	if err := enc(o); err != nil {
		panic(err)
	}
	hh, err := st.SetEncodedObject(o)
	if err != nil {
		panic(err)
	}
	return hh
}

func build(h *hist, hoursPerCommit int) (*git.Repository, []*object.Commit, []int) {
	st := memory.NewStorage()
	repo, err := git.Init(st, nil)
	if err != nil {
		panic(err)
	}
	anc := ancestors(h.parents)
	hashes := make([]plumbing.Hash, len(h.parents))
	base := time.Date(2020, 1, 1, 0, 0, 0, 0, time.UTC)
	ticks := make([]int, len(h.parents))
	for c := range h.parents {
		var entries []object.TreeEntry
		for f := 0; f < h.nfiles; f++ {
			var sb strings.Builder
			for _, l := range h.content(c, anc, f) {
				fmt.Fprintf(&sb, "L%d\n", l.id)
			}
			data := []byte(sb.String())
			if f >= 2 && len(data) == 0 {
				continue // the file does not exist in this commit
			}
			bh := put(st, plumbing.BlobObject, func(o plumbing.EncodedObject) error {
				w, _ := o.Writer()
				w.Write(data)
				return w.Close()
			})
			entries = append(entries, object.TreeEntry{Name: fmt.Sprintf("f%d.txt", f), Mode: filemode.Regular, Hash: bh})
		}
		tree := &object.Tree{Entries: entries}
		th := put(st, plumbing.TreeObject, tree.Encode)
		when := base.Add(time.Duration(c*hoursPerCommit) * time.Hour)
		ticks[c] = int(when.Sub(base) / (24 * time.Hour))
		sig := object.Signature{Name: fmt.Sprintf("dev%d", h.author[c]), Email: fmt.Sprintf("dev%d@x", h.author[c]), When: when}
		cm := &object.Commit{Author: sig, Committer: sig, Message: fmt.Sprintf("c%d", c), TreeHash: th}
		for _, p := range h.parents[c] {
			cm.ParentHashes = append(cm.ParentHashes, hashes[p])
		}
		hashes[c] = put(st, plumbing.CommitObject, cm.Encode)
	}
	st.SetReference(plumbing.NewHashReference("refs/heads/master", hashes[len(hashes)-1]))
	var commits []*object.Commit
	for _, hh := range hashes {
		c, err := repo.CommitObject(hh)
		if err != nil {
			panic(err)
		}
		commits = append(commits, c)
	}
	return repo, commits, ticks
}

type event struct {
	tick, birth int
	delta       int64
}

func dense(evs []event, lastTick, sampling, granularity int) [][]int64 {
	samples := lastTick/sampling + 1
	bands := lastTick/granularity + 1
	res := make([][]int64, samples)
	for i := range res {
		res[i] = make([]int64, bands)
	}
	for _, e := range evs {
		for s := e.tick / sampling; s < samples; s++ {
			res[s][e.birth/granularity] += e.delta
		}
	}
	return res
}

type cfg struct {
	Seed                   int64
	N                      int
	Redundant, Roots, Octo bool
	Sampling, Granularity  int
	Hours                  int
	HibDist, HibThreshold  int
	Disk                   bool
	Volatile               bool // files beyond the first two may be deleted and re-created
	Parents                [][]int
}

func runPipeline(repo *git.Repository, commits []*object.Commit, c cfg, hib bool) (br leaves.BurndownResult, facts map[string]interface{}, item *leaves.BurndownAnalysis, msg string) {
	pipeline := core.NewPipeline(repo)
	item = pipeline.DeployItem(&leaves.BurndownAnalysis{}).(*leaves.BurndownAnalysis)
	facts = map[string]interface{}{
		core.ConfigPipelineCommits:       commits,
		leaves.ConfigBurndownGranularity: c.Granularity,
		leaves.ConfigBurndownSampling:    c.Sampling,
		leaves.ConfigBurndownTrackFiles:  true,
		leaves.ConfigBurndownTrackPeople: true,
	}
	if hib {
		facts[core.ConfigPipelineHibernationDistance] = c.HibDist
		facts[leaves.ConfigBurndownHibernationThreshold] = c.HibThreshold
		if c.Disk {
			dir, _ := ioutil.TempDir("", "hvhib")
			defer func() {
				ents, _ := ioutil.ReadDir(dir)
				if len(ents) > 0 && msg == "" {
					msg = fmt.Sprintf("LEFTOVER hibernation files: %d", len(ents))
				}
				os.RemoveAll(dir)
			}()
			facts[leaves.ConfigBurndownHibernationToDisk] = true
			facts[leaves.ConfigBurndownHibernationDirectory] = dir
		}
	}
	if err := pipeline.Initialize(facts); err != nil {
		return br, facts, item, "INIT: " + err.Error()
	}
	res, err := pipeline.Run(commits)
	if err != nil {
		return br, facts, item, "RUN: " + err.Error()
	}
	br = res[item].(leaves.BurndownResult)
	return br, facts, item, ""
}

func resultString(br leaves.BurndownResult) string {
	var files []string
	for k := range br.FileHistories {
		files = append(files, k)
	}
	sort.Strings(files)
	var sb strings.Builder
	fmt.Fprint(&sb, br.GlobalHistory, br.PeopleHistories, br.PeopleMatrix)
	for _, f := range files {
		fmt.Fprint(&sb, f, br.FileHistories[f], br.FileOwnership[f])
	}
	return sb.String()
}

var vanishes bool

func runOne(c *cfg) (class, msg string) {
	vanishes = false
	class = "ground-truth"
	defer func() {
		if r := recover(); r != nil {
			msg = fmt.Sprintf("PANIC: %v", r)
		}
	}()
	rng := rand.New(rand.NewSource(c.Seed))
	h := gen(rng, c.N, c.Redundant, c.Roots, c.Octo, c.Volatile)
	c.Parents = h.parents
	// decidable class of the known finding C01-file-deleted-in-dag: the history has at least one merge commit and
	// some file is present in a commit and absent in one of its children (deleted on a branch or at a merge)
	{
		anc := ancestors(h.parents)
		merges := false
		for _, ps := range h.parents {
			if len(ps) > 1 {
				merges = true
			}
		}
		for m, ps := range h.parents {
			for f := 2; f < h.nfiles && merges; f++ {
				if len(h.content(m, anc, f)) != 0 {
					continue
				}
				for _, p := range ps {
					if len(h.content(p, anc, f)) != 0 {
						vanishes = true
					}
				}
			}
		}
	}
	if os.Getenv("HV_DEBUG") != "" {
		anc := ancestors(h.parents)
		for cc := range h.parents {
			for f := 0; f < h.nfiles; f++ {
				var ids []int
				for _, l := range h.content(cc, anc, f) {
					ids = append(ids, l.id)
				}
				fmt.Fprintf(os.Stderr, "commit %d parents %v author %d file %d: %v\n", cc, h.parents[cc], h.author[cc], f, ids)
			}
		}
	}
	repo, commits, ticks := build(h, c.Hours)
	sampling, granularity := c.Sampling, c.Granularity
	br, facts, item, m := runPipeline(repo, commits, *c, false)
	if m != "" {
		return class, m
	}
	if c.HibDist > 0 {
		// C09: the same history with hibernation must give exactly the same result
		br2, _, _, m2 := runPipeline(repo, commits, *c, true)
		if m2 != "" {
			return "hibernation", "with hibernation: " + m2
		}
		if resultString(br) != resultString(br2) {
			return "hibernation", "result differs with hibernation"
		}
	}
	var evs []event
	lastTick := 0
	for _, l := range h.lines {
		evs = append(evs, event{ticks[l.birth], ticks[l.birth], 1})
		if ticks[l.birth] > lastTick {
			lastTick = ticks[l.birth]
		}
		if l.death >= 0 {
			evs = append(evs, event{ticks[l.death], ticks[l.birth], -1})
			if ticks[l.death] > lastTick {
				lastTick = ticks[l.death]
			}
		}
	}
	want := dense(evs, lastTick, sampling, granularity)
	if fmt.Sprint(want) != fmt.Sprint(br.GlobalHistory) {
		return class, fmt.Sprintf("GLOBAL mismatch\n parents=%v\n want %v\n got  %v", h.parents, want, br.GlobalHistory)
	}
	// C17 round trip
	{
		var buf bytes.Buffer
		if err := item.Serialize(br, true, &buf); err != nil {
			return "roundtrip", "SERIALIZE: " + err.Error()
		}
		back, err := item.Deserialize(buf.Bytes())
		if err != nil {
			return "roundtrip", "DESERIALIZE: " + err.Error()
		}
		b2 := back.(leaves.BurndownResult)
		if fmt.Sprint(b2.GlobalHistory) != fmt.Sprint(br.GlobalHistory) || fmt.Sprint(b2.FileHistories) != fmt.Sprint(br.FileHistories) ||
			fmt.Sprint(b2.FileOwnership) != fmt.Sprint(br.FileOwnership) || fmt.Sprint(b2.PeopleHistories) != fmt.Sprint(br.PeopleHistories) ||
			fmt.Sprint(b2.PeopleMatrix) != fmt.Sprint(br.PeopleMatrix) || fmt.Sprint(b2.GetIdentities()) != fmt.Sprint(br.GetIdentities()) || b2.GetTickSize() != br.GetTickSize() {
			return "roundtrip", fmt.Sprintf("ROUNDTRIP mismatch\n%v\n%v", br, b2)
		}
	}
	// per-file (files 0 and 1, which exist in every commit; the others are deleted and re-created at will and
	// only enter the project-level, per-developer and interaction checks)
	for f := 0; f < 2; f++ {
		var fe []event
		for _, l := range h.lines {
			if l.file != f {
				continue
			}
			fe = append(fe, event{ticks[l.birth], ticks[l.birth], 1})
			if l.death >= 0 {
				fe = append(fe, event{ticks[l.death], ticks[l.birth], -1})
			}
		}
		w := dense(fe, lastTick, sampling, granularity)
		g := br.FileHistories[fmt.Sprintf("f%d.txt", f)]
		if fmt.Sprint(w) != fmt.Sprint(g) {
			return class, fmt.Sprintf("FILE %d mismatch\n parents=%v\n want %v\n got  %v", f, h.parents, w, g)
		}
	}
	// people
	rpd := facts[identity.FactIdentityDetectorReversedPeopleDict].([]string)
	devIndex := map[int]int{}
	for i, s := range rpd {
		var d int
		fmt.Sscanf(s, "dev%d|", &d)
		devIndex[d] = i
	}
	anc := ancestors(h.parents)
	head := len(h.parents) - 1
	for d, pi := range devIndex {
		var pe []event
		for _, l := range h.lines {
			if h.author[l.birth] != d {
				continue
			}
			pe = append(pe, event{ticks[l.birth], ticks[l.birth], 1})
			if l.death >= 0 {
				pe = append(pe, event{ticks[l.death], ticks[l.birth], -1})
			}
		}
		w := dense(pe, lastTick, sampling, granularity)
		g := br.PeopleHistories[pi]
		if fmt.Sprint(w) != fmt.Sprint(g) {
			return class, fmt.Sprintf("PEOPLE %d mismatch\n parents=%v\n want %v\n got  %v", d, h.parents, w, g)
		}
	}
	// ownership
	for f := 0; f < 2; f++ {
		w := map[int]int{}
		for _, l := range h.content(head, anc, f) {
			w[devIndex[h.author[l.birth]]]++
		}
		g := br.FileOwnership[fmt.Sprintf("f%d.txt", f)]
		if fmt.Sprint(w) != fmt.Sprint(g) {
			return class, fmt.Sprintf("OWNERSHIP %d mismatch\n parents=%v\n want %v\n got  %v", f, h.parents, w, g)
		}
	}
	// people matrix
	np := len(rpd)
	wm := make([][]int64, np)
	for i := range wm {
		wm[i] = make([]int64, np+2)
	}
	for _, l := range h.lines {
		a := devIndex[h.author[l.birth]]
		wm[a][0]++
		if l.death >= 0 {
			wm[a][2+devIndex[h.author[l.death]]]--
		}
	}
	if fmt.Sprint(wm) != fmt.Sprint(br.PeopleMatrix) {
		return class, fmt.Sprintf("MATRIX mismatch\n parents=%v authors=%v\n want %v\n got  %v", h.parents, h.author, wm, br.PeopleMatrix)
	}
	return class, ""
}

func main() {
	log.SetOutput(ioutil.Discard)
	seed, count, wo, wi, extra, done := hv.Args()
	defer done()
	maxN := 14
	if len(extra) > 0 {
		fmt.Sscan(extra[0], &maxN)
	}
	stats := map[string]int{}
	for it := 0; it < count; it++ {
		cs := seed*1000003 + int64(it)
		if v := os.Getenv("HV_CASE_SEED"); v != "" {
			fmt.Sscan(v, &cs) // replay of one recorded case
		}
		rng := rand.New(rand.NewSource(cs ^ 0x5eed))
		c := &cfg{Seed: cs, Volatile: len(extra) > 1 && extra[1] == "volatile", N: 3 + rng.Intn(maxN-2), Redundant: rng.Intn(3) == 0, Roots: rng.Intn(4) == 0, Octo: rng.Intn(3) == 0,
			Granularity: 1 + rng.Intn(4), Hours: 5 + rng.Intn(20)}
		c.Sampling = 1 + rng.Intn(c.Granularity)
		if c.Roots && c.Hours > 23 {
			// tick 0 is the day of the first ANALYSED commit, which may be the second root (commit 1):
			// keep both roots on the same day so that the ground truth does not depend on the plan order
			c.Hours = 23
		}
		switch rng.Intn(3) {
		case 1:
			c.HibDist, c.HibThreshold = 1+rng.Intn(3), []int{0, 0, 3, 10, 1000}[rng.Intn(5)]
		case 2:
			c.HibDist, c.HibThreshold, c.Disk = 1+rng.Intn(3), []int{0, 0, 3, 10, 1000}[rng.Intn(5)], true
		}
		class, m := runOne(c)
		if m != "" && vanishes {
			class = "file-deleted-in-dag" // whatever the symptom (wrong cells, run-to-run differences, negative cells)
		}
		js, _ := json.Marshal(c)
		fmt.Fprintf(wo, "hist %s\n", js)
		if m == "" {
			fmt.Fprintln(wi, "ok")
			stats["ok"]++
			if c.HibDist > 0 {
				stats["with-hibernation"]++
			}
			merges := 0
			for _, p := range c.Parents {
				if len(p) > 1 {
					merges++
				}
			}
			if merges > 0 {
				stats["with-merges"]++
			}
		} else {
			fmt.Fprintln(wi, "fail")
			stats["fail"]++
			if len(m) > 1500 {
				m = m[:1500]
			}
			hv.Fail(class, string(js), strings.Replace(m, "\n", " / ", -1))
		}
	}
	hv.Stats(stats)
}
