package main

import (
	"bufio"
	"fmt"
	"math/rand"
	"os"
	"sort"
	"strconv"
	"strings"

	"gopkg.in/src-d/hercules.v10/leaves"
)

const missing = (1 << 18) - 2

func main() {
	seed, _ := strconv.ParseInt(os.Args[1], 10, 64)
	count, _ := strconv.Atoi(os.Args[2])
	ops, _ := os.Create(os.Args[3])
	impl, _ := os.Create(os.Args[4])
	wo, wi := bufio.NewWriter(ops), bufio.NewWriter(impl)
	defer wo.Flush()
	defer wi.Flush()
	panics := 0
	for it := 0; it < count; it++ {
		rng := rand.New(rand.NewSource(seed + int64(it)))
		pn := rng.Intn(4)
		pack := func(a, t int) int {
			if pn == 0 {
				return t
			}
			return t | a<<14
		}
		author := func() int {
			r := rng.Intn(12)
			if r == 0 {
				return missing
			}
			if r == 1 {
				return pn + rng.Intn(2) // out of range
			}
			if pn == 0 {
				return 0
			}
			return rng.Intn(pn)
		}
		var evs [][3]int
		var es []string
		for k := rng.Intn(10); k > 0; k-- {
			e := [3]int{pack(author(), rng.Intn(6)), pack(author(), rng.Intn(6)), rng.Intn(21) - 10}
			evs = append(evs, e)
			es = append(es, fmt.Sprintf("%d,%d,%d", e[0], e[1], e[2]))
		}
		line := strings.Join(es, ";")
		if line == "" {
			line = "-"
		}
		fmt.Fprintf(wo, "rt %d %s\n", pn, line)
		func() {
			defer func() {
				if r := recover(); r != nil {
					panics++
					fmt.Fprintln(wi, "panic")
				}
			}()
			g, p, m := leaves.VerifRoute(pn, evs)
			var gs, ps, ms []string
			var cs []int
			for c := range g {
				cs = append(cs, c)
			}
			sort.Ints(cs)
			for _, c := range cs {
				var bs []int
				for b := range g[c] {
					bs = append(bs, b)
				}
				sort.Ints(bs)
				for _, b := range bs {
					gs = append(gs, fmt.Sprintf("%d/%d=%d", c, b, g[c][b]))
				}
			}
			for a, h := range p {
				var cs []int
				for c := range h {
					cs = append(cs, c)
				}
				sort.Ints(cs)
				for _, c := range cs {
					var bs []int
					for b := range h[c] {
						bs = append(bs, b)
					}
					sort.Ints(bs)
					for _, b := range bs {
						ps = append(ps, fmt.Sprintf("%d/%d/%d=%d", a, c, b, h[c][b]))
					}
				}
			}
			for o, row := range m {
				var ns []int
				for n := range row {
					ns = append(ns, n)
				}
				sort.Ints(ns)
				for _, n := range ns {
					ms = append(ms, fmt.Sprintf("%d/%d=%d", o, n, row[n]))
				}
			}
			fmt.Fprintf(wi, "G %s P %s M %s\n", strings.Join(gs, " "), strings.Join(ps, " "), strings.Join(ms, " "))
		}()
	}
	fmt.Fprintln(os.Stderr, "panics:", panics)
}
