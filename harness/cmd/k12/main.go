// k12: LinesStatsCalculator.Consume over whole commits (several insertions, deletions and modifications at once,
// binary blobs, merge commits) against the Lean model Ln.consume (C12).
// ops: commit <isMerge> I:<file>:<lines|b> D:<file>:<lines|b> M:<file>:<script>
// oracle: per commit, added+changed = inserted lines and removed+changed = deleted lines (scripts without two deletes
// in a row), every changed text file reported exactly once under its own name.
package main

import (
	"encoding/json"
	"fmt"
	"math/rand"
	"sort"
	"strings"

	"github.com/sergi/go-diff/diffmatchpatch"
	"gopkg.in/src-d/go-git.v4/plumbing"
	"gopkg.in/src-d/go-git.v4/plumbing/object"
	"gopkg.in/src-d/hercules.v10/internal/core"
	items "gopkg.in/src-d/hercules.v10/internal/plumbing"
	"gopkg.in/src-d/hercules.v10/verifharness/hv"
)

func main() {
	seed, count, wo, wi, _, done := hv.Args()
	defer done()
	rng := rand.New(rand.NewSource(seed))
	lsc := &items.LinesStatsCalculator{}
	lsc.Initialize(nil)
	stats := map[string]int{}
	for it := 0; it < count; it++ {
		n := rng.Intn(7)
		isMerge := rng.Intn(12) == 0
		var changes object.Changes
		cache := map[plumbing.Hash]*items.CachedBlob{}
		diffs := map[string]items.FileDiffData{}
		var toks []string
		wantIns, wantDel := 0, 0
		doubleDelete := false
		expectNames := map[string]bool{}
		blob := func() (plumbing.Hash, string, int) {
			var h plumbing.Hash
			rng.Read(h[:])
			lines := rng.Intn(9)
			data := strings.Repeat("x\n", lines)
			tok := fmt.Sprint(lines)
			if rng.Intn(8) == 0 {
				data = "\x00" + data
				tok = "b"
				lines = -1
			}
			cache[h] = &items.CachedBlob{Data: []byte(data)}
			return h, tok, lines
		}
		for i := 0; i < n; i++ {
			name := fmt.Sprint(i)
			switch rng.Intn(3) {
			case 0:
				h, tok, lines := blob()
				changes = append(changes, &object.Change{To: object.ChangeEntry{Name: name, TreeEntry: object.TreeEntry{Name: name, Hash: h}}})
				toks = append(toks, "I:"+name+":"+tok)
				if lines >= 0 {
					wantIns += lines
					expectNames[name] = true
				}
				stats["insert"]++
			case 1:
				h, tok, lines := blob()
				changes = append(changes, &object.Change{From: object.ChangeEntry{Name: name, TreeEntry: object.TreeEntry{Name: name, Hash: h}}})
				toks = append(toks, "D:"+name+":"+tok)
				if lines >= 0 {
					wantDel += lines
					expectNames[name] = true
				}
				stats["delete"]++
			case 2:
				var ds []diffmatchpatch.Diff
				var es []string
				prevDel := false
				for k := rng.Intn(6); k > 0; k-- {
					m := 1 + rng.Intn(4)
					switch rng.Intn(3) {
					case 0:
						ds = append(ds, diffmatchpatch.Diff{Type: diffmatchpatch.DiffEqual, Text: strings.Repeat("é", m)})
						es = append(es, fmt.Sprintf("E%d", m))
						prevDel = false
					case 1:
						ds = append(ds, diffmatchpatch.Diff{Type: diffmatchpatch.DiffInsert, Text: strings.Repeat("é", m)})
						es = append(es, fmt.Sprintf("I%d", m))
						wantIns += m
						prevDel = false
					case 2:
						if prevDel {
							if rng.Intn(4) > 0 {
								continue
							}
							doubleDelete = true
						}
						ds = append(ds, diffmatchpatch.Diff{Type: diffmatchpatch.DiffDelete, Text: strings.Repeat("é", m)})
						es = append(es, fmt.Sprintf("D%d", m))
						wantDel += m
						prevDel = true
					}
				}
				h1, _, _ := blob()
				h2, _, _ := blob()
				from := name
				if rng.Intn(3) == 0 {
					// renamed and edited in one commit (as RenameAnalysis reports it): FileDiff files the script under
					// the NEW name
					from = "renamed-from/" + name
					stats["modify_with_rename"]++
				}
				changes = append(changes, &object.Change{
					From: object.ChangeEntry{Name: from, TreeEntry: object.TreeEntry{Name: from, Hash: h1}},
					To:   object.ChangeEntry{Name: name, TreeEntry: object.TreeEntry{Name: name, Hash: h2}}})
				diffs[name] = items.FileDiffData{Diffs: ds}
				t := strings.Join(es, ",")
				if t == "" {
					t = "-"
				}
				toks = append(toks, "M:"+name+":"+t)
				expectNames[name] = true
				stats["modify"]++
			}
		}
		mg := "0"
		if isMerge {
			mg = "1"
		}
		fmt.Fprintf(wo, "commit %s %s\n", mg, strings.Join(toks, " "))
		res, err := lsc.Consume(map[string]interface{}{
			core.DependencyIsMerge:      isMerge,
			items.DependencyTreeChanges: changes,
			items.DependencyBlobCache:   cache,
			items.DependencyFileDiff:    diffs,
		})
		caseJSON := func() string {
			c, _ := json.Marshal(map[string]interface{}{"merge": isMerge, "changes": toks})
			return string(c)
		}
		if err != nil {
			fmt.Fprintln(wi, "error")
			hv.Fail("line-stats", caseJSON(), err.Error())
			continue
		}
		m := res[items.DependencyLineStats].(map[object.ChangeEntry]items.LineStats)
		var out []string
		gotIns, gotDel := 0, 0
		names := map[string]int{}
		type kv struct {
			name string
			st   items.LineStats
		}
		var kvs []kv
		for k, st := range m {
			kvs = append(kvs, kv{k.Name, st})
			gotIns += st.Added + st.Changed
			gotDel += st.Removed + st.Changed
			names[k.Name]++
		}
		sort.Slice(kvs, func(i, j int) bool {
			if len(kvs[i].name) != len(kvs[j].name) {
				return len(kvs[i].name) < len(kvs[j].name)
			}
			return kvs[i].name < kvs[j].name
		})
		for _, e := range kvs {
			out = append(out, fmt.Sprintf("%s=%d/%d/%d", e.name, e.st.Added, e.st.Removed, e.st.Changed))
		}
		if len(out) == 0 {
			fmt.Fprintln(wi, "-")
		} else {
			fmt.Fprintln(wi, strings.Join(out, " "))
		}
		if isMerge {
			if len(m) != 0 {
				hv.Fail("line-stats", caseJSON(), "a merge commit reports line statistics")
			}
			continue
		}
		if !doubleDelete && (gotIns != wantIns || gotDel != wantDel) {
			hv.Fail("line-stats", caseJSON(), fmt.Sprintf("added+changed=%d for %d inserted lines, removed+changed=%d for %d deleted lines", gotIns, wantIns, gotDel, wantDel))
		}
		for nme := range expectNames {
			if names[nme] != 1 {
				hv.Fail("line-stats", caseJSON(), "file "+nme+" is not reported under its own name")
				break
			}
		}
	}
	hv.Stats(stats)
}
