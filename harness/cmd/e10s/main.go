// e10s: Pipeline.DeployItem on a synthetic registry (C10, "deploying an analysis adds the transitive closure of the enabled
// providers of its requirements and nothing else").  Twelve plumbing item types provide six entities; for every
// entity the registration order of feature-gated and plain providers differs (gated first, plain first, gated only).
// What an item requires is drawn per case.  Go-side statement: the deployed set equals the closure computed from the
// specification; an unsatisfied requirement makes Initialize fail.
package main

import (
	"fmt"
	"io/ioutil"
	"log"
	"math/rand"
	"os"
	"sort"
	"strings"

	"gopkg.in/src-d/go-git.v4"
	"gopkg.in/src-d/go-git.v4/storage/memory"
	"gopkg.in/src-d/hercules.v10/internal/core"
	"gopkg.in/src-d/hercules.v10/verifharness/hv"
)

// per-case requirement table, by item name
var reqs = map[string][]string{}

type base struct{}

func (base) ListConfigurationOptions() []core.ConfigurationOption { return nil }
func (base) Configure(map[string]interface{}) error               { return nil }
func (base) Initialize(*git.Repository) error                     { return nil }
func (base) Consume(map[string]interface{}) (map[string]interface{}, error) {
	return map[string]interface{}{}, nil
}
func (base) Merge([]core.PipelineItem) {}

type P0 struct{ base }

func (*P0) Name() string                     { return "P0" }
func (*P0) Provides() []string               { return []string{"x0"} }
func (*P0) Requires() []string               { return reqs["P0"] }
func (x *P0) Fork(n int) []core.PipelineItem { return core.ForkSamePipelineItem(x, n) }
func (*P0) Features() []string               { return []string{"f0"} }

type P1 struct{ base }

func (*P1) Name() string                     { return "P1" }
func (*P1) Provides() []string               { return []string{"x0"} }
func (*P1) Requires() []string               { return reqs["P1"] }
func (x *P1) Fork(n int) []core.PipelineItem { return core.ForkSamePipelineItem(x, n) }

type P2 struct{ base }

func (*P2) Name() string                     { return "P2" }
func (*P2) Provides() []string               { return []string{"x1"} }
func (*P2) Requires() []string               { return reqs["P2"] }
func (x *P2) Fork(n int) []core.PipelineItem { return core.ForkSamePipelineItem(x, n) }

type P3 struct{ base }

func (*P3) Name() string                     { return "P3" }
func (*P3) Provides() []string               { return []string{"x1"} }
func (*P3) Requires() []string               { return reqs["P3"] }
func (x *P3) Fork(n int) []core.PipelineItem { return core.ForkSamePipelineItem(x, n) }
func (*P3) Features() []string               { return []string{"f1"} }

type P4 struct{ base }

func (*P4) Name() string                     { return "P4" }
func (*P4) Provides() []string               { return []string{"x2"} }
func (*P4) Requires() []string               { return reqs["P4"] }
func (x *P4) Fork(n int) []core.PipelineItem { return core.ForkSamePipelineItem(x, n) }
func (*P4) Features() []string               { return []string{"f0"} }

type P5 struct{ base }

func (*P5) Name() string                     { return "P5" }
func (*P5) Provides() []string               { return []string{"x2"} }
func (*P5) Requires() []string               { return reqs["P5"] }
func (x *P5) Fork(n int) []core.PipelineItem { return core.ForkSamePipelineItem(x, n) }
func (*P5) Features() []string               { return []string{"f1"} }

type P6 struct{ base }

func (*P6) Name() string                     { return "P6" }
func (*P6) Provides() []string               { return []string{"x2"} }
func (*P6) Requires() []string               { return reqs["P6"] }
func (x *P6) Fork(n int) []core.PipelineItem { return core.ForkSamePipelineItem(x, n) }

type P7 struct{ base }

func (*P7) Name() string                     { return "P7" }
func (*P7) Provides() []string               { return []string{"x3"} }
func (*P7) Requires() []string               { return reqs["P7"] }
func (x *P7) Fork(n int) []core.PipelineItem { return core.ForkSamePipelineItem(x, n) }

type P8 struct{ base }

func (*P8) Name() string                     { return "P8" }
func (*P8) Provides() []string               { return []string{"x4"} }
func (*P8) Requires() []string               { return reqs["P8"] }
func (x *P8) Fork(n int) []core.PipelineItem { return core.ForkSamePipelineItem(x, n) }

type P9 struct{ base }

func (*P9) Name() string                     { return "P9" }
func (*P9) Provides() []string               { return []string{"x3"} }
func (*P9) Requires() []string               { return reqs["P9"] }
func (x *P9) Fork(n int) []core.PipelineItem { return core.ForkSamePipelineItem(x, n) }
func (*P9) Features() []string               { return []string{"f2"} }

type PA struct{ base }

func (*PA) Name() string                     { return "PA" }
func (*PA) Provides() []string               { return []string{"x5"} }
func (*PA) Requires() []string               { return reqs["PA"] }
func (x *PA) Fork(n int) []core.PipelineItem { return core.ForkSamePipelineItem(x, n) }
func (*PA) Features() []string               { return []string{"f2"} }

type PB struct{ base }

func (*PB) Name() string                     { return "PB" }
func (*PB) Provides() []string               { return []string{"x5"} }
func (*PB) Requires() []string               { return reqs["PB"] }
func (x *PB) Fork(n int) []core.PipelineItem { return core.ForkSamePipelineItem(x, n) }
func (*PB) Features() []string               { return []string{"f0"} }

type L0 struct{ base }

func (*L0) Name() string                     { return "L0" }
func (*L0) Provides() []string               { return []string{} }
func (*L0) Requires() []string               { return reqs["L0"] }
func (x *L0) Fork(n int) []core.PipelineItem { return core.ForkSamePipelineItem(x, n) }

type L1 struct{ base }

func (*L1) Name() string                     { return "L1" }
func (*L1) Provides() []string               { return []string{} }
func (*L1) Requires() []string               { return reqs["L1"] }
func (x *L1) Fork(n int) []core.PipelineItem { return core.ForkSamePipelineItem(x, n) }
func (*L1) Features() []string               { return []string{"f1"} }

type L2 struct{ base }

func (*L2) Name() string                     { return "L2" }
func (*L2) Provides() []string               { return []string{} }
func (*L2) Requires() []string               { return reqs["L2"] }
func (x *L2) Fork(n int) []core.PipelineItem { return core.ForkSamePipelineItem(x, n) }
func (*L2) Features() []string               { return []string{"f0", "f2"} }

// types registered late, one by one, while the probe runs (the registry must show them to every later Summon), and two
// different types that share a name
type Z1 struct{ base }

func (*Z1) Name() string                     { return "Z1" }
func (*Z1) Provides() []string               { return []string{"zlate"} }
func (*Z1) Requires() []string               { return nil }
func (x *Z1) Fork(n int) []core.PipelineItem { return core.ForkSamePipelineItem(x, n) }

type Z2 struct{ base }

func (*Z2) Name() string                     { return "Z2" }
func (*Z2) Provides() []string               { return []string{"zlate", "zlate2"} }
func (*Z2) Requires() []string               { return nil }
func (x *Z2) Fork(n int) []core.PipelineItem { return core.ForkSamePipelineItem(x, n) }

type ZD1 struct{ base }

func (*ZD1) Name() string                     { return "ZDup" }
func (*ZD1) Provides() []string               { return []string{"zdup"} }
func (*ZD1) Requires() []string               { return nil }
func (x *ZD1) Fork(n int) []core.PipelineItem { return core.ForkSamePipelineItem(x, n) }

type ZD2 struct{ base }

func (*ZD2) Name() string                     { return "ZDup" }
func (*ZD2) Provides() []string               { return []string{"zdup", "zdup2"} }
func (*ZD2) Requires() []string               { return nil }
func (x *ZD2) Fork(n int) []core.PipelineItem { return core.ForkSamePipelineItem(x, n) }

// registryOracle states what Register/Summon promise, on the real global registry: Summon(key) gives one fresh instance of
// every registered type that provides the entity `key`, in registration order, then the type registered last under the
// name `key`; a registration is visible to every later Summon, whatever was summoned before
func registryOracle() string {
	show := func(items []core.PipelineItem) string {
		var s []string
		for _, it := range items {
			s = append(s, fmt.Sprintf("%T", it))
		}
		return strings.Join(s, ",")
	}
	expect := func(key, want string) string {
		if got := show(core.Registry.Summon(key)); got != want {
			return fmt.Sprintf("Summon(%q) gives [%s], registered so far: [%s]", key, got, want)
		}
		return ""
	}
	steps := []struct {
		reg  core.PipelineItem
		want map[string]string
	}{
		{nil, map[string]string{"zlate": "", "zlate2": "", "Z1": "", "zdup2": ""}},
		{&Z1{}, map[string]string{"zlate": "*main.Z1", "zlate2": "", "Z1": "*main.Z1"}},
		{&Z2{}, map[string]string{"zlate": "*main.Z1,*main.Z2", "zlate2": "*main.Z2", "Z2": "*main.Z2", "Z1": "*main.Z1"}},
		{&ZD1{}, map[string]string{"zdup": "*main.ZD1", "zdup2": "", "ZDup": "*main.ZD1"}},
		{&ZD2{}, map[string]string{"zdup": "*main.ZD1,*main.ZD2", "zdup2": "*main.ZD2", "ZDup": "*main.ZD2", "zlate": "*main.Z1,*main.Z2"}},
	}
	for _, st := range steps {
		if st.reg != nil {
			core.Registry.Register(st.reg)
		}
		var keys []string
		for k := range st.want {
			keys = append(keys, k)
		}
		sort.Strings(keys)
		for _, k := range keys {
			if m := expect(k, st.want[k]); m != "" {
				return m
			}
		}
	}
	return ""
}

func feats(it core.PipelineItem) []string {
	if f, ok := it.(core.FeaturedPipelineItem); ok {
		return f.Features()
	}
	return nil
}

func main() {
	log.SetOutput(ioutil.Discard)
	devnull, _ := os.OpenFile(os.DevNull, os.O_WRONLY, 0)
	os.Stderr = devnull
	// registration order = order in which Summon returns the providers of an entity
	plumbing := []core.PipelineItem{&P0{}, &P1{}, &P2{}, &P3{}, &P4{}, &P5{}, &P6{}, &P7{}, &P8{}, &P9{}, &PA{}, &PB{}}
	for _, p := range plumbing {
		core.Registry.Register(p)
	}
	repo, _ := git.Init(memory.NewStorage(), nil)
	entities := []string{"x0", "x1", "x2", "x3", "x4", "x5"}
	registryMsg, registryDone := "", false
	hv.RunOracle(func(cs int64, extra []string) (string, string, string, []string) {
		if !registryDone {
			// once per probe run, after the deployments of the first case have summoned from the registry
			defer func() {
				if !registryDone {
					registryDone = true
					registryMsg = registryOracle()
				}
			}()
		} else if registryMsg != "" {
			m := registryMsg
			registryMsg = ""
			return `{"registry":"late registrations Z1, Z2 (entity zlate), two types named ZDup"}`, "registry", m, nil
		}
		rng := rand.New(rand.NewSource(cs))
		reqs = map[string][]string{}
		names := []string{"P0", "P1", "P2", "P3", "P4", "P5", "P6", "P7", "P8", "P9", "PA", "PB", "L0", "L1", "L2"}
		for _, n := range names {
			var r []string
			for k := rng.Intn(3); k > 0; k-- {
				e := entities[rng.Intn(len(entities))]
				dup := false
				for _, x := range r {
					if x == e {
						dup = true
					}
				}
				if !dup {
					r = append(r, e)
				}
			}
			reqs[n] = r
		}
		p := core.NewPipeline(repo)
		enabled := map[string]bool{}
		var pre []string
		for _, f := range []string{"f0", "f1", "f2"} {
			if rng.Intn(3) == 0 {
				p.SetFeature(f)
				enabled[f] = true
				pre = append(pre, f)
			}
		}
		newLeaf := func(i int) core.PipelineItem {
			switch i {
			case 0:
				return &L0{}
			case 1:
				return &L1{}
			}
			return &L2{}
		}
		var order []int
		for _, i := range rng.Perm(3)[:1+rng.Intn(3)] {
			order = append(order, i)
		}
		want := map[string]bool{}
		isEnabled := func(it core.PipelineItem) bool {
			for _, f := range feats(it) {
				if !enabled[f] {
					return false
				}
			}
			return true
		}
		var deployed []string
		pan := ""
		for _, li := range order {
			leaf := newLeaf(li)
			deployed = append(deployed, leaf.Name())
			for _, f := range feats(leaf) {
				enabled[f] = true
			}
			want[leaf.Name()] = true
			queue := []core.PipelineItem{leaf}
			for len(queue) > 0 {
				h := queue[0]
				queue = queue[1:]
				for _, req := range h.Requires() {
					for _, prov := range core.Registry.Summon(req) {
						if !isEnabled(prov) || want[prov.Name()] {
							continue
						}
						want[prov.Name()] = true
						queue = append(queue, prov)
					}
				}
			}
			func() {
				defer func() {
					if r := recover(); r != nil {
						pan = fmt.Sprint(r)
					}
				}()
				p.DeployItem(leaf)
			}()
		}
		var rq []string
		for _, n := range names {
			rq = append(rq, n+":"+strings.Join(reqs[n], "+"))
		}
		desc := fmt.Sprintf(`{"seed":%d,"requires":%q,"features_set_before":%q,"deployed_in_order":%q}`, cs, strings.Join(rq, " "), strings.Join(pre, ","), strings.Join(deployed, ","))
		if pan != "" {
			return desc, "deploy-closure", "DeployItem panicked: " + pan, nil
		}
		got := map[string]bool{}
		for _, it := range p.VerifItems() {
			if got[it.Name()] {
				return desc, "deploy-closure", "item " + it.Name() + " was deployed twice", nil
			}
			got[it.Name()] = true
		}
		var missing, extra2 []string
		for n := range want {
			if !got[n] {
				missing = append(missing, n)
			}
		}
		for n := range got {
			if !want[n] {
				extra2 = append(extra2, n)
			}
		}
		sort.Strings(missing)
		sort.Strings(extra2)
		if len(missing)+len(extra2) > 0 {
			return desc, "deploy-closure", fmt.Sprintf("deployed set differs from the closure of the enabled providers: missing %v, not in the closure %v", missing, extra2), nil
		}
		// an unsatisfied requirement must make Initialize fail
		provided := map[string]bool{}
		for _, it := range p.VerifItems() {
			for _, e := range it.Provides() {
				provided[e] = true
			}
		}
		unsat := false
		for _, it := range p.VerifItems() {
			for _, r := range it.Requires() {
				if !provided[r] {
					unsat = true
				}
			}
		}
		tag := "satisfiable"
		if unsat {
			tag = "unsatisfied_requirement"
			var err error
			func() {
				defer func() {
					if r := recover(); r != nil {
						err = fmt.Errorf("panic %v", r)
					}
				}()
				err = p.Initialize(map[string]interface{}{core.ConfigPipelineDryRun: true})
			}()
			if err == nil {
				return desc, "deploy-closure", "a requirement has no deployed provider but Initialize succeeded", []string{tag}
			}
		}
		return desc, "deploy-closure", "", []string{tag}
	})
}
