package main

import (
	"bytes"
	"fmt"
	"gopkg.in/src-d/hercules.v10/verifharness/hv"
	"io/ioutil"
	"log"
	"math/rand"
	"runtime/debug"
	"time"

	"gopkg.in/src-d/go-git.v4"
	"gopkg.in/src-d/go-git.v4/plumbing"
	"gopkg.in/src-d/go-git.v4/plumbing/filemode"
	"gopkg.in/src-d/go-git.v4/plumbing/object"
	"gopkg.in/src-d/go-git.v4/storage/memory"
	"gopkg.in/src-d/hercules.v10/internal/core"
	"gopkg.in/src-d/hercules.v10/leaves"
)

func put(st *memory.Storage, t plumbing.ObjectType, enc func(o plumbing.EncodedObject) error) plumbing.Hash {
	o := st.NewEncodedObject()
	o.SetType(t)
	enc(o)
	hh, _ := st.SetEncodedObject(o)
	return hh
}

type out struct {
	devs    leaves.DevsResult
	couples leaves.CouplesResult
	common  *core.CommonAnalysisResult
}

func mkrun(rng *rand.Rand, devNames [][2]string, fileNames []string, startDay int) out {
	st := memory.NewStorage()
	repo, _ := git.Init(st, nil)
	files := map[string]string{}
	base := time.Date(2020, 1, startDay, 3, 0, 0, 0, time.UTC)
	var prev plumbing.Hash
	var commits []*object.Commit
	n := 4 + rng.Intn(6)
	for c := 0; c < n; c++ {
		for k := 0; k < 1+rng.Intn(3); k++ {
			f := fileNames[rng.Intn(len(fileNames))]
			files[f] += fmt.Sprintf("l%d\n", rng.Intn(1000))
		}
		var entries []object.TreeEntry
		for _, f := range fileNames {
			if data, ok := files[f]; ok {
				d := []byte(data)
				bh := put(st, plumbing.BlobObject, func(o plumbing.EncodedObject) error {
					w, _ := o.Writer()
					w.Write(d)
					return w.Close()
				})
				entries = append(entries, object.TreeEntry{Name: f, Mode: filemode.Regular, Hash: bh})
			}
		}
		th := put(st, plumbing.TreeObject, (&object.Tree{Entries: entries}).Encode)
		dv := devNames[rng.Intn(len(devNames))]
		sig := object.Signature{Name: dv[0], Email: dv[1], When: base.Add(time.Duration(c*13) * time.Hour)}
		cm := &object.Commit{Author: sig, Committer: sig, Message: fmt.Sprint(c), TreeHash: th}
		if c > 0 {
			cm.ParentHashes = []plumbing.Hash{prev}
		}
		prev = put(st, plumbing.CommitObject, cm.Encode)
		co, _ := repo.CommitObject(prev)
		commits = append(commits, co)
	}
	pipeline := core.NewPipeline(repo)
	devs := pipeline.DeployItem(&leaves.DevsAnalysis{}).(*leaves.DevsAnalysis)
	couples := pipeline.DeployItem(&leaves.CouplesAnalysis{}).(*leaves.CouplesAnalysis)
	facts := map[string]interface{}{core.ConfigPipelineCommits: commits}
	if err := pipeline.Initialize(facts); err != nil {
		panic(err)
	}
	res, err := pipeline.Run(commits)
	if err != nil {
		panic(err)
	}
	return out{res[devs].(leaves.DevsResult), res[couples].(leaves.CouplesResult), res[nil].(*core.CommonAnalysisResult)}
}

func devTotals(d leaves.DevsResult) [4]int {
	var t [4]int
	for _, dd := range d.Ticks {
		for _, x := range dd {
			t[0] += x.Commits
			t[1] += x.Added
			t[2] += x.Removed
			t[3] += x.Changed
		}
	}
	return t
}

func runOne(seed int64) (msg string) {
	defer func() {
		if r := recover(); r != nil {
			msg = fmt.Sprintf("PANIC %v\n%s", r, debug.Stack())
		}
	}()
	rng := rand.New(rand.NewSource(seed))
	// names sorted differently from files; overlapping identities
	o1 := mkrun(rng, [][2]string{{"zed", "z@x"}, {"amy", "amy@x"}}, []string{"m.txt", "a.txt", "q.txt"}, 1)
	o2 := mkrun(rng, [][2]string{{"amy2", "amy@x"}, {"bob", "b@x"}, {"zed", "zz@x"}}, []string{"q.txt", "b.txt", "a.txt", "k.txt"}, 1+rng.Intn(5))
	da := &leaves.DevsAnalysis{}
	md := da.MergeResults(o1.devs, o2.devs, o1.common, o2.common).(leaves.DevsResult)
	t1, t2, tm := devTotals(o1.devs), devTotals(o2.devs), devTotals(md)
	for i := range tm {
		if tm[i] != t1[i]+t2[i] {
			return fmt.Sprintf("devs totals %v + %v != %v", t1, t2, tm)
		}
	}
	ca := &leaves.CouplesAnalysis{}
	trunc := func(r *leaves.CouplesResult) {
		var buf bytes.Buffer
		if err := ca.Serialize(*r, true, &buf); err != nil {
			panic(err)
		}
		back, err := ca.Deserialize(buf.Bytes())
		if err != nil {
			panic(err)
		}
		b := back.(leaves.CouplesResult)
		if fmt.Sprint(b.Files) != fmt.Sprint(r.Files) || fmt.Sprint(b.FilesLines) != fmt.Sprint(r.FilesLines) || fmt.Sprint(b.FilesMatrix) != fmt.Sprint(r.FilesMatrix) || fmt.Sprint(b.PeopleMatrix) != fmt.Sprint(r.PeopleMatrix) {
			panic("couples roundtrip mismatch")
		}
		*r = b
	}
	trunc(&o1.couples)
	trunc(&o2.couples)
	mc := ca.MergeResults(o1.couples, o2.couples, o1.common, o2.common).(leaves.CouplesResult)
	// files matrix by name
	sumByName := map[[2]string]int64{}
	add := func(r leaves.CouplesResult) {
		for i, row := range r.FilesMatrix {
			for j, v := range row {
				sumByName[[2]string{r.Files[i], r.Files[j]}] += v
			}
		}
	}
	add(o1.couples)
	add(o2.couples)
	got := map[[2]string]int64{}
	for i, row := range mc.FilesMatrix {
		for j, v := range row {
			got[[2]string{mc.Files[i], mc.Files[j]}] += v
		}
	}
	if fmt.Sprint(sumByName) != fmt.Sprint(got) {
		return fmt.Sprintf("couples files matrix mismatch\n want %v\n got  %v", sumByName, got)
	}
	lines := map[string]int{}
	for i, f := range o1.couples.Files {
		lines[f] += o1.couples.FilesLines[i]
	}
	for i, f := range o2.couples.Files {
		lines[f] += o2.couples.FilesLines[i]
	}
	for i, f := range mc.Files {
		if mc.FilesLines[i] != lines[f] {
			return "couples lines mismatch"
		}
	}
	// people matrix total conserved
	tot := func(r leaves.CouplesResult) int64 {
		var s int64
		for _, row := range r.PeopleMatrix {
			for _, v := range row {
				s += v
			}
		}
		return s
	}
	if tot(mc) != tot(o1.couples)+tot(o2.couples) {
		return fmt.Sprintf("couples people total %d + %d != %d", tot(o1.couples), tot(o2.couples), tot(mc))
	}
	c := o1.common.Copy()
	c.Merge(o2.common)
	if c.CommitsNumber != o1.common.CommitsNumber+o2.common.CommitsNumber {
		return "common commits"
	}
	return ""
}

func main() {
	log.SetOutput(ioutil.Discard)
	hv.RunOracle(func(cs int64, extra []string) (string, string, string, []string) {
		return fmt.Sprintf(`{"seed":%d}`, cs), "merge-results", runOne(cs), nil
	})
}
