// e10: every subset of the registered leaf analyses (C10, second sentence), with the optional features on and off:
// deployment adds exactly the transitive closure of the enabled providers, initialisation succeeds iff that closure
// has no unsatisfied requirement, and the resolved order runs every item after the providers of its inputs.
// Exhaustive over the registry of the current tree (no seed dependence); one ops line per (subset, features).
package main

import (
	"fmt"
	"io/ioutil"
	"log"
	"os"
	"sort"
	"strings"

	"gopkg.in/src-d/go-git.v4"
	"gopkg.in/src-d/go-git.v4/storage/memory"
	hercules "gopkg.in/src-d/hercules.v10"
	"gopkg.in/src-d/hercules.v10/internal/core"
	_ "gopkg.in/src-d/hercules.v10/leaves/research"
	"gopkg.in/src-d/hercules.v10/verifharness/hv"
)

func feats(it core.PipelineItem) []string {
	if f, ok := it.(core.FeaturedPipelineItem); ok {
		return f.Features()
	}
	return nil
}

func main() {
	log.SetOutput(ioutil.Discard)
	_, _, wo, wi, _, done := hv.Args()
	defer done()
	devnull, _ := os.OpenFile(os.DevNull, os.O_WRONLY, 0)
	os.Stderr = devnull
	repo, _ := git.Init(memory.NewStorage(), nil)
	leavesL := hercules.Registry.GetLeaves()
	n := len(leavesL)
	var allFeatures []string
	for f := range hercules.Registry.GetFeaturedItems() {
		allFeatures = append(allFeatures, f)
	}
	sort.Strings(allFeatures)
	stats := map[string]int{}
	for mask := 1; mask < 1<<uint(n); mask++ {
		for _, withFeat := range []bool{false, true} {
			enabled := map[string]bool{}
			p := hercules.NewPipeline(repo)
			if withFeat {
				for _, f := range allFeatures {
					p.SetFeature(f)
					enabled[f] = true
				}
			}
			isEnabled := func(it core.PipelineItem) bool {
				for _, f := range feats(it) {
					if !enabled[f] {
						return false
					}
				}
				return true
			}
			fresh := hercules.Registry.GetLeaves()
			var chosen []string
			// expected closure
			want := map[string]bool{}
			unsat := false
			// DeployItem, one leaf after the other: the leaf's own features are switched on, then the closure of the
			// providers enabled at that moment is added; items that are already present are not expanded again
			expand := func(start core.PipelineItem) {
				queue := []core.PipelineItem{start}
				for len(queue) > 0 {
					h := queue[0]
					queue = queue[1:]
					for _, req := range h.Requires() {
						for _, prov := range hercules.Registry.Summon(req) {
							if !isEnabled(prov) || want[prov.Name()] {
								continue
							}
							want[prov.Name()] = true
							queue = append(queue, prov)
						}
					}
				}
			}
			for i := 0; i < n; i++ {
				if mask&(1<<uint(i)) != 0 {
					chosen = append(chosen, fresh[i].Name())
					for _, f := range feats(fresh[i]) {
						enabled[f] = true
					}
					want[fresh[i].Name()] = true
					expand(fresh[i])
				}
			}
			// a requirement is unsatisfied when no deployed item provides it
			provided := map[string]bool{}
			var wantItems []core.PipelineItem
			for _, it := range append(append([]core.PipelineItem{}, hercules.Registry.GetPlumbingItems()...), leavesAsItems(hercules.Registry.GetLeaves())...) {
				if want[it.Name()] {
					wantItems = append(wantItems, it)
					for _, e := range it.Provides() {
						provided[e] = true
					}
				}
			}
			for _, it := range wantItems {
				for _, r := range it.Requires() {
					if !provided[r] {
						unsat = true
					}
				}
			}
			desc := fmt.Sprintf(`{"leaves":%q,"features":%v}`, strings.Join(chosen, ","), withFeat)
			opsLine := fmt.Sprintf("nop subset %d %v %s", mask, withFeat, strings.Join(chosen, ","))
			defer0 := func() { fmt.Fprintln(wo, opsLine) }
			var err error
			var pan interface{}
			func() {
				defer func() { pan = recover() }()
				for i := 0; i < n; i++ {
					if mask&(1<<uint(i)) != 0 {
						p.DeployItem(fresh[i])
					}
				}
				err = p.Initialize(map[string]interface{}{core.ConfigPipelineDryRun: true, core.ConfigPipelineCommits: nil})
			}()
			fail := func(what string) {
				defer0()
				fmt.Fprintln(wi, "bad")
				hv.Fail("builtin-subset", desc, what)
				stats["fail"]++
			}
			switch {
			case pan != nil:
				fail(fmt.Sprintf("panic: %v", pan))
				continue
			case err != nil && !unsat:
				fail("initialisation failed although every requirement has an enabled provider: " + err.Error())
				continue
			case err == nil && unsat:
				fail("initialisation succeeded although a requirement has no enabled provider")
				continue
			case err != nil:
				defer0()
				fmt.Fprintln(wi, "ok")
				stats["refused"]++
				continue
			}
			items := p.VerifItems()
			pos := map[string]int{}
			byName := map[string]core.PipelineItem{}
			dup := false
			for i, it := range items {
				if _, d := pos[it.Name()]; d {
					dup = true
				}
				pos[it.Name()] = i
				byName[it.Name()] = it
			}
			got := map[string]bool{}
			for k := range pos {
				got[k] = true
			}
			if dup || fmt.Sprint(sortedKeys(got)) != fmt.Sprint(sortedKeys(want)) {
				fail(fmt.Sprintf("deployed %v, the closure of the enabled providers is %v", sortedKeys(got), sortedKeys(want)))
				continue
			}
			// order: after every provider of a required entity, unless that provider is downstream of the item
			down := func(i core.PipelineItem) map[string]bool {
				d := map[string]bool{}
				fr := []core.PipelineItem{i}
				for len(fr) > 0 {
					h := fr[0]
					fr = fr[1:]
					for _, e := range h.Provides() {
						for _, q := range items {
							if q.Name() == i.Name() || d[q.Name()] {
								continue
							}
							for _, r := range q.Requires() {
								if r == e {
									d[q.Name()] = true
									fr = append(fr, q)
								}
							}
						}
					}
				}
				return d
			}
			bad := ""
			for _, i := range items {
				di := down(i)
				for _, e := range i.Requires() {
					for _, q := range items {
						if q.Name() == i.Name() || di[q.Name()] {
							continue
						}
						for _, pe := range q.Provides() {
							if pe == e && pos[q.Name()] > pos[i.Name()] {
								bad = fmt.Sprintf("%s runs before %s, which provides its input %s", i.Name(), q.Name(), e)
							}
						}
					}
				}
			}
			if bad != "" {
				fail(bad)
				continue
			}
			// the resolved order also goes through the Lean checker Ord.orderValid (entities numbered by name)
			entID := map[string]int{}
			var entNames []string
			for _, it := range items {
				entNames = append(entNames, it.Provides()...)
				entNames = append(entNames, it.Requires()...)
			}
			sort.Strings(entNames)
			for _, e := range entNames {
				if _, ok := entID[e]; !ok {
					entID[e] = len(entID)
				}
			}
			lst := func(es []string) string {
				if len(es) == 0 {
					return "-"
				}
				var x []string
				for _, e := range es {
					x = append(x, fmt.Sprint(entID[e]))
				}
				return strings.Join(x, ",")
			}
			// positions: the deployed list in name order; the order: resolved sequence
			var deployed []string
			for k := range pos {
				deployed = append(deployed, k)
			}
			sort.Strings(deployed)
			dpos := map[string]int{}
			var its []string
			for i, nme := range deployed {
				dpos[nme] = i
				its = append(its, lst(byName[nme].Provides())+":"+lst(byName[nme].Requires()))
			}
			var ord []string
			for _, it := range items {
				ord = append(ord, fmt.Sprint(dpos[it.Name()]))
			}
			opsLine = fmt.Sprintf("ord %s %s", strings.Join(its, ";"), strings.Join(ord, ","))
			defer0()
			fmt.Fprintln(wi, "ok")
			stats["ok"]++
		}
	}
	stats["leaves"] = n
	hv.Stats(stats)
}

func leavesAsItems(ls []core.LeafPipelineItem) []core.PipelineItem {
	var r []core.PipelineItem
	for _, l := range ls {
		r = append(r, l)
	}
	return r
}

func sortedKeys(m map[string]bool) []string {
	var r []string
	for k := range m {
		r = append(r, k)
	}
	sort.Strings(r)
	return r
}
