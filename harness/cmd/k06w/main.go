// k06w: several trees on shared / cloned allocators (C05, C06, C08) against the Lean world model `rbw`.
// ops (one per line): new | alloc a | tree t a | ins t k v id | del t k | erase t | deep t t2 a2 ids |
//
//	clone a a2 | shallow t t2 a2 | obs t
//
// observable after every op: preorder dump of the touched tree (node index, key, value, colour), min/max node,
// count, and the tree's allocator (size, sorted gaps, Used()).
// Go-side oracle (property statements on the implementation alone): structural invariants incl. parent links,
// node sets of trees sharing an allocator pairwise disjoint and disjoint from the gaps, Used() = live + 1,
// sorted-map answers of iteration / Min / Max / Len, held iterators keep pointing at their element.
package main

import (
	"encoding/json"
	"fmt"
	"math/rand"
	"sort"
	"strings"

	"gopkg.in/src-d/hercules.v10/internal/rbtree"
	"gopkg.in/src-d/hercules.v10/verifharness/hv"
)

func dump(st []rbtree.VerifNode, n uint32) string {
	if n == 0 {
		return "."
	}
	if int(n) >= len(st) {
		return fmt.Sprintf("(out-of-storage %d)", n)
	}
	c := "R"
	if st[n].Black {
		c = "B"
	}
	return fmt.Sprintf("(%d^%d %d %d %s %s %s)", n, st[n].Parent, st[n].Key, st[n].Value, c, dump(st, st[n].Left), dump(st, st[n].Right))
}

type tr struct {
	t     *rbtree.RBTree
	a     int
	m     map[uint32]uint32          // the sorted-map specification
	iters map[uint32]rbtree.Iterator // iterators held since the element was inserted
}

type world struct {
	allocs    map[int]*rbtree.Allocator
	trees     map[int]*tr
	untracked map[int]bool // allocators that also hold nodes of trees the probe does not follow
}

func (w *world) fmtAlloc(a int) string {
	al := w.allocs[a]
	st, gaps := al.VerifSnapshot()
	var g []int
	for k := range gaps {
		g = append(g, int(k))
	}
	sort.Ints(g)
	gs := make([]string, len(g))
	for i, x := range g {
		gs[i] = fmt.Sprint(x)
	}
	return fmt.Sprintf("size=%d gaps=[%s] used=%d", len(st), strings.Join(gs, ","), al.Used())
}

func (w *world) fmtTree(t int) string {
	x := w.trees[t]
	st, _ := w.allocs[x.a].VerifSnapshot()
	root, mn, mx, cnt := x.t.VerifHeader()
	return fmt.Sprintf("%s min=%d max=%d n=%d | %s", dump(st, root), mn, mx, cnt, w.fmtAlloc(x.a))
}

// oracle: returns "" or a description of a violated statement
func (w *world) oracle() (msg string) {
	defer func() {
		if r := recover(); r != nil {
			msg = fmt.Sprintf("panic while reading the trees: %v", r)
		}
	}()
	perAlloc := map[int]map[uint32]int{}
	live := map[int]int{}
	ids := make([]int, 0, len(w.trees))
	for id := range w.trees {
		ids = append(ids, id)
	}
	sort.Ints(ids)
	for _, id := range ids {
		x := w.trees[id]
		items, nodes, err := x.t.VerifCheck()
		if err != nil {
			return fmt.Sprintf("tree %d: %v", id, err)
		}
		if len(items) != len(x.m) || x.t.Len() != len(x.m) {
			return fmt.Sprintf("tree %d: %d elements, Len()=%d, the map has %d", id, len(items), x.t.Len(), len(x.m))
		}
		for _, it := range items {
			if v, ok := x.m[it.Key]; !ok || v != it.Value {
				return fmt.Sprintf("tree %d: element %v is not in the map", id, it)
			}
		}
		// API iteration forward and backward
		var fw []uint32
		for it := x.t.Min(); !it.Limit(); it = it.Next() {
			fw = append(fw, it.Item().Key)
			if len(fw) > len(x.m)+1 {
				return fmt.Sprintf("tree %d: forward iteration does not end", id)
			}
		}
		var bw []uint32
		for it := x.t.Max(); !it.NegativeLimit(); it = it.Prev() {
			bw = append(bw, it.Item().Key)
			if len(bw) > len(x.m)+1 {
				return fmt.Sprintf("tree %d: backward iteration does not end", id)
			}
		}
		if len(fw) != len(x.m) || len(bw) != len(x.m) {
			return fmt.Sprintf("tree %d: iteration yields %d / %d elements, the map has %d", id, len(fw), len(bw), len(x.m))
		}
		for i := range fw {
			if i > 0 && fw[i-1] >= fw[i] || fw[i] != bw[len(bw)-1-i] {
				return fmt.Sprintf("tree %d: iteration order %v / %v", id, fw, bw)
			}
		}
		for k, it := range x.iters {
			item := it.Item()
			if item.Key != k || item.Value != x.m[k] {
				return fmt.Sprintf("tree %d: iterator held for key %d now points at %v", id, k, *item)
			}
		}
		if perAlloc[x.a] == nil {
			perAlloc[x.a] = map[uint32]int{}
		}
		for n := range nodes {
			if other, dup := perAlloc[x.a][n]; dup {
				return fmt.Sprintf("node %d of allocator %d belongs to trees %d and %d", n, x.a, other, id)
			}
			perAlloc[x.a][n] = id
		}
		live[x.a] += len(nodes)
	}
	for a, al := range w.allocs {
		st, gaps := al.VerifSnapshot()
		for g := range gaps {
			if _, used := perAlloc[a][g]; used {
				return fmt.Sprintf("allocator %d: node %d is live and in the free list", a, g)
			}
		}
		// Used() = live elements + the reserved slot, provided every tree on the allocator is tracked
		if len(st) > 0 && al.Used() != live[a]+1 && !w.untracked[a] {
			return fmt.Sprintf("allocator %d: Used()=%d with %d live elements", a, al.Used(), live[a])
		}
	}
	return ""
}

func main() {
	seed, count, wo, wi, _, done := hv.Args()
	defer done()
	rng := rand.New(rand.NewSource(seed))
	stats := map[string]int{}
	for it := 0; it < count; it++ {
		w := &world{allocs: map[int]*rbtree.Allocator{0: rbtree.NewAllocator()}, trees: map[int]*tr{}, untracked: map[int]bool{}}
		fmt.Fprintln(wo, "new")
		fmt.Fprintln(wi, "ok")
		var hist []string
		op := func(format string, args ...interface{}) {
			l := fmt.Sprintf(format, args...)
			hist = append(hist, l)
			fmt.Fprintln(wo, l)
		}
		nextTree, nextAlloc := 0, 1
		newTree := func(a int) int {
			id := nextTree
			nextTree++
			w.trees[id] = &tr{rbtree.NewRBTree(w.allocs[a]), a, map[uint32]uint32{}, map[uint32]rbtree.Iterator{}}
			op("tree %d %d", id, a)
			fmt.Fprintln(wi, "ok")
			return id
		}
		newTree(0)
		if rng.Intn(2) == 0 {
			newTree(0)
		}
		keyRange := 4 + rng.Intn(40)
		n := 10 + rng.Intn(90)
		failed := false
		for i := 0; i < n && !failed; i++ {
			tids := make([]int, 0, len(w.trees))
			for id := range w.trees {
				tids = append(tids, id)
			}
			sort.Ints(tids)
			t := tids[rng.Intn(len(tids))]
			x := w.trees[t]
			panicked := ""
			func() {
				defer func() {
					if r := recover(); r != nil {
						panicked = fmt.Sprint(r)
					}
				}()
				switch r := rng.Intn(100); {
				case r < 45:
					k, v := uint32(rng.Intn(keyRange)), uint32(rng.Intn(1000))
					ok, iter := x.t.Insert(rbtree.Item{Key: k, Value: v})
					id := uint32(0)
					if ok {
						id = iter.VerifNodeOf()
						x.m[k] = v
						x.iters[k] = iter
					}
					op("ins %d %d %d %d", t, k, v, id)
					fmt.Fprintf(wi, "%v %s\n", ok, w.fmtTree(t))
					stats["ins"]++
				case r < 75:
					k := uint32(rng.Intn(keyRange))
					var ok bool
					if it, held := x.iters[k]; held && rng.Intn(2) == 0 {
						x.t.DeleteWithIterator(it)
						ok = true
					} else {
						ok = x.t.DeleteWithKey(k)
					}
					if ok {
						delete(x.m, k)
						delete(x.iters, k)
					}
					op("del %d %d", t, k)
					fmt.Fprintf(wi, "%v %s\n", ok, w.fmtTree(t))
					stats["del"]++
				case r < 80:
					x.t.Erase()
					x.m = map[uint32]uint32{}
					x.iters = map[uint32]rbtree.Iterator{}
					op("erase %d", t)
					fmt.Fprintln(wi, w.fmtTree(t))
					stats["erase"]++
				case r < 85:
					if len(w.trees) < 4 {
						newTree(x.a)
					} else {
						op("obs %d", t)
						fmt.Fprintln(wi, w.fmtTree(t))
					}
				case r < 91:
					// deep clone into another (possibly new) allocator
					a2 := rng.Intn(nextAlloc + 1)
					if a2 == nextAlloc {
						w.allocs[a2] = rbtree.NewAllocator()
						nextAlloc++
						op("alloc %d", a2)
						fmt.Fprintln(wi, "ok")
					}
					if len(w.trees) >= 5 {
						op("obs %d", t)
						fmt.Fprintln(wi, w.fmtTree(t))
						return
					}
					c := x.t.CloneDeep(w.allocs[a2])
					var ids []string
					its := map[uint32]rbtree.Iterator{}
					for it := c.Min(); !it.Limit(); it = it.Next() {
						ids = append(ids, fmt.Sprint(it.VerifNodeOf()))
						its[it.Item().Key] = it
						if len(ids) > len(x.m)+1 {
							break
						}
					}
					l := strings.Join(ids, ",")
					if l == "" {
						l = "-"
					}
					t2 := nextTree
					nextTree++
					m2 := map[uint32]uint32{}
					for k, v := range x.m {
						m2[k] = v
					}
					w.trees[t2] = &tr{c, a2, m2, its}
					op("deep %d %d %d %s", t, t2, a2, l)
					fmt.Fprintln(wi, w.fmtTree(t2))
					stats["deep"]++
				case r < 96:
					// Allocator.Clone + CloneShallow of every tree on it: the copies evolve independently
					if len(w.trees) >= 4 {
						op("obs %d", t)
						fmt.Fprintln(wi, w.fmtTree(t))
						return
					}
					a2 := nextAlloc
					nextAlloc++
					w.allocs[a2] = w.allocs[x.a].Clone()
					op("clone %d %d", x.a, a2)
					fmt.Fprintln(wi, w.fmtAlloc(a2))
					// the clone also carries the nodes of the sibling trees, which are not re-attached:
					// its Used() accounting is not checked
					w.untracked[a2] = true
					t2 := nextTree
					nextTree++
					c := x.t.CloneShallow(w.allocs[a2])
					m2 := map[uint32]uint32{}
					for k, v := range x.m {
						m2[k] = v
					}
					w.trees[t2] = &tr{c, a2, m2, map[uint32]rbtree.Iterator{}}
					op("shallow %d %d %d", t, t2, a2)
					fmt.Fprintln(wi, w.fmtTree(t2))
					stats["clone"]++
				default:
					op("obs %d", t)
					fmt.Fprintln(wi, w.fmtTree(t))
				}
			}()
			fail := func(what string) {
				c, _ := json.Marshal(map[string]interface{}{"ops": hist})
				hv.Fail("rbtree-world", string(c), what)
				failed = true
			}
			if panicked != "" {
				fmt.Fprintln(wi, "panic")
				fail("panic: " + panicked)
				break
			}
			if m := w.oracle(); m != "" {
				fail(m)
			}
		}
	}
	hv.Stats(stats)
}
