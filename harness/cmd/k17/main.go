package main

import (
	"bytes"
	"fmt"
	"gopkg.in/src-d/hercules.v10/verifharness/hv"
	"math/rand"
	"strings"

	"gopkg.in/src-d/hercules.v10/leaves"
)

func join(v []int64) string {
	if len(v) == 0 {
		return "-"
	}
	s := make([]string, len(v))
	for i, x := range v {
		s[i] = fmt.Sprint(x)
	}
	return strings.Join(s, ",")
}

func show(v []int64) string {
	s := make([]string, len(v))
	for i, x := range v {
		s[i] = fmt.Sprint(x)
	}
	return "[" + strings.Join(s, ", ") + "]"
}

func main() {
	hvSeed, hvCount, wo, wi, _, hvDone := hv.Args()
	defer hvDone()
	rng := rand.New(rand.NewSource(hvSeed))
	b := &leaves.BurndownAnalysis{}
	for it := 0; it < hvCount; it++ {
		rows := 1 + rng.Intn(5)
		cols := 1 + rng.Intn(6)
		m := make([][]int64, rows)
		for i := range m {
			m[i] = make([]int64, cols)
			for j := range m[i] {
				switch rng.Intn(5) {
				case 0:
					m[i][j] = -int64(rng.Intn(4))
				case 1, 2:
					m[i][j] = int64(rng.Intn(100))
				case 3:
					m[i][j] = int64(rng.Int63n(1 << 32))
				}
			}
		}
		np := 1 + rng.Intn(4)
		pm := make([][]int64, np)
		for i := range pm {
			pm[i] = make([]int64, np+2)
			for j := range pm[i] {
				if rng.Intn(2) == 0 {
					pm[i][j] = int64(rng.Intn(200) - 100)
				}
			}
		}
		res := leaves.BurndownResult{GlobalHistory: m, PeopleMatrix: pm}
		var buf bytes.Buffer
		if err := b.Serialize(res, true, &buf); err != nil {
			panic(err)
		}
		back, err := b.Deserialize(buf.Bytes())
		if err != nil {
			panic(err)
		}
		r2 := back.(leaves.BurndownResult)
		// Go-side statement (oracle): same dimensions, negative history cells clamped to zero, everything else equal
		for i := range m {
			bad := len(r2.GlobalHistory) != len(m) || len(r2.GlobalHistory[i]) != len(m[i])
			for j := 0; !bad && j < len(m[i]); j++ {
				want := m[i][j]
				if want < 0 {
					want = 0
				}
				if r2.GlobalHistory[i][j] != want {
					bad = true
				}
			}
			if bad {
				hv.Fail("burndown-roundtrip", fmt.Sprintf(`{"matrix":%q}`, fmt.Sprint(m)), fmt.Sprintf("project matrix reads back as %v", r2.GlobalHistory))
				break
			}
		}
		if fmt.Sprint(r2.PeopleMatrix) != fmt.Sprint(pm) {
			hv.Fail("burndown-roundtrip", fmt.Sprintf(`{"people_matrix":%q}`, fmt.Sprint(pm)), fmt.Sprintf("interaction matrix reads back as %v", r2.PeopleMatrix))
		}
		for i := range m {
			fmt.Fprintf(wo, "row %s\n", join(m[i]))
			fmt.Fprintf(wi, "%s\n", show(r2.GlobalHistory[i]))
		}
		var rs []string
		for i := range pm {
			rs = append(rs, join(pm[i]))
		}
		fmt.Fprintf(wo, "csr %d %s\n", np+2, strings.Join(rs, ";"))
		var out []string
		for i := range r2.PeopleMatrix {
			out = append(out, show(r2.PeopleMatrix[i]))
		}
		fmt.Fprintf(wi, "[%s]\n", strings.Join(out, ", "))
	}
}
