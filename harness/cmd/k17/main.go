package main

import (
	"bytes"
	"fmt"
	"gopkg.in/src-d/hercules.v10/verifharness/hv"
	"math/rand"
	"reflect"
	"strings"

	"gopkg.in/src-d/hercules.v10/leaves"
)

func join(v []int64) string {
	if len(v) == 0 {
		return "-"
	}
	s := make([]string, len(v))
	for i, x := range v {
		s[i] = fmt.Sprint(x)
	}
	return strings.Join(s, ",")
}

func show(v []int64) string {
	s := make([]string, len(v))
	for i, x := range v {
		s[i] = fmt.Sprint(x)
	}
	return "[" + strings.Join(s, ", ") + "]"
}

func main() {
	hvSeed, hvCount, wo, wi, _, hvDone := hv.Args()
	defer hvDone()
	raggedCases := 0
	defer func() { hv.Stats(map[string]int{"project_matrices_stored_with_short_early_rows": raggedCases}) }()
	rng := rand.New(rand.NewSource(hvSeed))
	b := &leaves.BurndownAnalysis{}
	for it := 0; it < hvCount; it++ {
		rows := 1 + rng.Intn(5)
		cols := 1 + rng.Intn(6)
		m := make([][]int64, rows)
		for i := range m {
			m[i] = make([]int64, cols)
			for j := range m[i] {
				switch rng.Intn(5) {
				case 0:
					m[i][j] = -int64(rng.Intn(4))
				case 1, 2:
					m[i][j] = int64(rng.Intn(100))
				case 3:
					m[i][j] = int64(rng.Int63n(1 << 32))
				}
			}
		}
		np := 1 + rng.Intn(4)
		pm := make([][]int64, np)
		for i := range pm {
			pm[i] = make([]int64, np+2)
			for j := range pm[i] {
				if rng.Intn(2) == 0 {
					pm[i][j] = int64(rng.Intn(200) - 100)
				}
			}
		}
		// the whole result: file histories under arbitrary names, ownership tables (the unmatched author is key -1
		// in memory and in the format), developer histories, identity list, tick size, sampling, granularity
		dict := []string{"ann|ann@x", "bob|bob@x", "çé|u@ü", "", "dee|dee@x"}[:np]
		gen := func() [][]int64 {
			h := make([][]int64, rows)
			for i := range h {
				h[i] = make([]int64, cols)
				for j := range h[i] {
					if rng.Intn(3) > 0 {
						h[i][j] = int64(rng.Intn(50)) - 3
					}
				}
			}
			return h
		}
		ph := make([][][]int64, np)
		for i := range ph {
			ph[i] = gen()
		}
		fileNames := []string{"a.go", "dir/b.py", "ünï.txt", "with space.md", ""}
		fh := map[string][][]int64{}
		fo := map[string]map[int]int{}
		for _, f := range fileNames {
			if rng.Intn(2) == 0 {
				fh[f] = gen()
				own := map[int]int{}
				for d := -1; d < np; d++ {
					if rng.Intn(2) == 0 {
						own[d] = rng.Intn(500)
					}
				}
				fo[f] = own
			}
		}
		tickNs := []int64{3600e9, 24 * 3600e9, 17 * 60e9}[rng.Intn(3)]
		samp, gran := 1+rng.Intn(30), 1+rng.Intn(30)
		// the sparse shape real results have: early rows are shorter (the bands that did not exist yet are not stored).
		// Only trailing zeros are dropped, and never from the last row, so the matrix means the same; every expectation
		// below is stated on the full rectangular `m`
		stored := m
		if rng.Intn(3) == 0 && rows > 1 {
			stored = make([][]int64, rows)
			for i := range m {
				keep := cols
				if i < rows-1 {
					keep = 1 + i*cols/rows
					for j := keep; j < cols; j++ {
						m[i][j] = 0
					}
				}
				stored[i] = append([]int64{}, m[i][:keep]...)
			}
			raggedCases++
		}
		res := leaves.VerifNewBurndownResult(stored, ph, pm, dict, tickNs, samp, gran)
		res.FileHistories = fh
		res.FileOwnership = fo
		var buf bytes.Buffer
		if err := b.Serialize(res, true, &buf); err != nil {
			panic(err)
		}
		back, err := b.Deserialize(buf.Bytes())
		if err != nil {
			panic(err)
		}
		r2 := back.(leaves.BurndownResult)
		// what was read back can be written and read again without change
		func() {
			defer func() {
				if r := recover(); r != nil {
					hv.Fail("burndown-second-roundtrip", fmt.Sprintf(`{"matrix":%q}`, fmt.Sprint(m)), fmt.Sprintf("writing a result that was read back panicked: %v", r))
				}
			}()
			var b2 bytes.Buffer
			if err := b.Serialize(r2, true, &b2); err != nil {
				hv.Fail("burndown-second-roundtrip", fmt.Sprintf(`{"matrix":%q}`, fmt.Sprint(m)), "writing a result that was read back failed: "+err.Error())
				return
			}
			again, err := b.Deserialize(b2.Bytes())
			if err != nil || !reflect.DeepEqual(again, back) {
				hv.Fail("burndown-second-roundtrip", fmt.Sprintf(`{"matrix":%q}`, fmt.Sprint(m)), fmt.Sprintf("the result changes when it is written and read a second time (error %v)", err))
			}
		}()
		// Go-side statement (oracle): same dimensions, negative history cells clamped to zero, everything else equal
		for i := range m {
			bad := len(r2.GlobalHistory) != len(m) || len(r2.GlobalHistory[i]) != len(m[i])
			for j := 0; !bad && j < len(m[i]); j++ {
				want := m[i][j]
				if want < 0 {
					want = 0
				}
				if r2.GlobalHistory[i][j] != want {
					bad = true
				}
			}
			if bad {
				hv.Fail("burndown-roundtrip", fmt.Sprintf(`{"matrix":%q}`, fmt.Sprint(m)), fmt.Sprintf("project matrix reads back as %v", r2.GlobalHistory))
				break
			}
		}
		clamp := func(h [][]int64) [][]int64 {
			c := make([][]int64, len(h))
			for i := range h {
				c[i] = make([]int64, len(h[i]))
				for j, v := range h[i] {
					if v > 0 {
						c[i][j] = v
					}
				}
			}
			return c
		}
		full := func() string {
			return fmt.Sprintf(`{"files":%q,"ownership":%q,"people":%q,"dict":%q,"tick_ns":%d,"sampling":%d,"granularity":%d}`,
				fmt.Sprint(fh), fmt.Sprint(fo), fmt.Sprint(ph), dict, tickNs, samp, gran)
		}
		if len(r2.FileHistories) != len(fh) {
			hv.Fail("burndown-roundtrip", full(), fmt.Sprintf("%d file histories read back, %d written", len(r2.FileHistories), len(fh)))
		}
		for f, h := range fh {
			if fmt.Sprint(r2.FileHistories[f]) != fmt.Sprint(clamp(h)) {
				hv.Fail("burndown-roundtrip", full(), fmt.Sprintf("history of file %q reads back as %v", f, r2.FileHistories[f]))
			}
			if fmt.Sprint(r2.FileOwnership[f]) != fmt.Sprint(fo[f]) {
				hv.Fail("burndown-roundtrip", full(), fmt.Sprintf("ownership of file %q reads back as %v, written %v", f, r2.FileOwnership[f], fo[f]))
			}
		}
		for i := range ph {
			if i >= len(r2.PeopleHistories) || fmt.Sprint(r2.PeopleHistories[i]) != fmt.Sprint(clamp(ph[i])) {
				hv.Fail("burndown-roundtrip", full(), fmt.Sprintf("history of developer %d reads back differently: %v", i, r2.PeopleHistories))
				break
			}
		}
		if fmt.Sprint(leaves.VerifBurndownDict(r2)) != fmt.Sprint(dict) {
			hv.Fail("burndown-roundtrip", full(), fmt.Sprintf("identity list reads back as %q", leaves.VerifBurndownDict(r2)))
		}
		if t2, s2, g2 := leaves.VerifBurndownMeta(r2); t2 != tickNs || s2 != samp || g2 != gran {
			hv.Fail("burndown-roundtrip", full(), fmt.Sprintf("tick size / sampling / granularity read back as %d/%d/%d", t2, s2, g2))
		}
		// text format: every matrix is printed with its number of rows and columns, history cells clamped at zero
		var tbuf bytes.Buffer
		if err := b.Serialize(res, false, &tbuf); err != nil {
			hv.Fail("burndown-text", full(), "text serialization failed: "+err.Error())
		} else {
			lines := strings.Split(tbuf.String(), "\n")
			block := func(header string) ([][]int64, bool) {
				for i, l := range lines {
					if strings.TrimSpace(l) == header {
						var rows [][]int64
						for _, r := range lines[i+1:] {
							f := strings.Fields(r)
							if len(f) == 0 {
								break
							}
							var row []int64
							ok := true
							for _, x := range f {
								var v int64
								if _, err := fmt.Sscan(x, &v); err != nil {
									ok = false
									break
								}
								row = append(row, v)
							}
							if !ok {
								break
							}
							rows = append(rows, row)
						}
						return rows, true
					}
				}
				return nil, false
			}
			checkM := func(what, header string, want [][]int64) {
				got, found := block(header)
				if !found {
					hv.Fail("burndown-text", full(), fmt.Sprintf("no %s block (%q) in the text output", what, header))
					return
				}
				if fmt.Sprint(got) != fmt.Sprint(want) {
					hv.Fail("burndown-text", full(), fmt.Sprintf("%s is printed as %v (%d rows), the result holds %v (%d rows)", what, got, len(got), want, len(want)))
				}
			}
			checkM("the project matrix", "\"project\": |-", clamp(m))
			emptyName := false
			for _, d := range dict {
				if d == "" {
					emptyName = true // PrintMatrix prints a matrix without a name without a header: it joins the block before it
				}
			}
			for i, d := range dict {
				if !emptyName {
					checkM("the matrix of developer "+d, "\""+d+"\": |-", clamp(ph[i]))
				}
			}
			checkM("the interaction matrix", "people_interaction: |-", pm)
		}
		if fmt.Sprint(r2.PeopleMatrix) != fmt.Sprint(pm) {
			hv.Fail("burndown-roundtrip", fmt.Sprintf(`{"people_matrix":%q}`, fmt.Sprint(pm)), fmt.Sprintf("interaction matrix reads back as %v", r2.PeopleMatrix))
		}
		for i := range m {
			fmt.Fprintf(wo, "row %s\n", join(m[i]))
			fmt.Fprintf(wi, "%s\n", show(r2.GlobalHistory[i]))
		}
		var rs []string
		for i := range pm {
			rs = append(rs, join(pm[i]))
		}
		fmt.Fprintf(wo, "csr %d %s\n", np+2, strings.Join(rs, ";"))
		var out []string
		for i := range r2.PeopleMatrix {
			out = append(out, show(r2.PeopleMatrix[i]))
		}
		fmt.Fprintf(wi, "[%s]\n", strings.Join(out, ", "))
	}
}
