package main

// Pipeline.resolve (through Initialize dry run) vs. the Lean model on synthetic item sets.
import (
	"encoding/json"
	"fmt"
	"math/rand"
	"sort"
	"strconv"
	"strings"

	"gopkg.in/src-d/go-git.v4"
	"gopkg.in/src-d/go-git.v4/storage/memory"
	"gopkg.in/src-d/hercules.v10/internal/core"
	"gopkg.in/src-d/hercules.v10/verifharness/hv"
)

type it struct {
	core.NoopMerger
	name     string
	provides []string
	requires []string
}

func (r *it) Name() string                                         { return r.name }
func (r *it) Provides() []string                                   { return r.provides }
func (r *it) Requires() []string                                   { return r.requires }
func (r *it) ListConfigurationOptions() []core.ConfigurationOption { return nil }
func (r *it) Configure(map[string]interface{}) error               { return nil }
func (r *it) Initialize(*git.Repository) error                     { return nil }
func (r *it) Consume(map[string]interface{}) (map[string]interface{}, error) {
	return nil, nil
}
func (r *it) Fork(n int) []core.PipelineItem { return core.ForkSamePipelineItem(r, n) }

func run(specs []*it) (res string, names []*it) {
	defer func() {
		if r := recover(); r != nil {
			res = fmt.Sprintf("PANIC %v", r)
			names = nil
		}
	}()
	repo, _ := git.Init(memory.NewStorage(), nil)
	p := core.NewPipeline(repo)
	for _, s := range specs {
		p.AddItem(s)
	}
	err := p.Initialize(map[string]interface{}{core.ConfigPipelineDryRun: true, core.ConfigPipelineCommits: nil})
	if err != nil {
		return "err " + err.Error(), nil
	}

	for _, x := range p.VerifItems() {
		names = append(names, x.(*it))
	}
	return "ok", names
}

// validate states C10 on the outcome of the real Initialize (oracle, no model involved).
// Reading of "runs after every other provider" (DESIGN.md, C10): item I runs after provider Q of an entity I
// requires unless Q itself transitively requires an output of I (then Q is downstream of I, e.g. a refiner).
func validate(specs []*it, res string, names []*it) string {
	providers := map[string][]*it{}
	for _, s := range specs {
		for _, e := range s.provides {
			providers[e] = append(providers[e], s)
		}
	}
	unsat := false
	for _, s := range specs {
		for _, e := range s.requires {
			// a requirement is satisfied by a provider other than the item itself
			ok := false
			for _, q := range providers[e] {
				if q != s {
					ok = true
				}
			}
			if !ok {
				unsat = true
			}
		}
	}
	// downstream[i][q]: q transitively requires an output of i
	down := map[*it]map[*it]bool{}
	for _, i := range specs {
		d := map[*it]bool{}
		frontier := []*it{i}
		for len(frontier) > 0 {
			h := frontier[0]
			frontier = frontier[1:]
			for _, e := range h.provides {
				for _, q := range specs {
					if q == i || d[q] {
						continue
					}
					for _, r := range q.requires {
						if r == e {
							d[q] = true
							frontier = append(frontier, q)
						}
					}
				}
			}
		}
		down[i] = d
	}
	if strings.HasPrefix(res, "PANIC") {
		return "initialization panicked: " + res
	}
	if strings.HasPrefix(res, "err") {
		if strings.Contains(res, "unsatisfied") && !unsat {
			return "reported an unsatisfied dependency although every requirement has a provider"
		}
		if !strings.Contains(res, "unsatisfied") && !unsat {
			// must be cyclic: some item is downstream of itself through another item
			cyclic := false
			for _, i := range specs {
				for q := range down[i] {
					if down[q][i] {
						cyclic = true
					}
				}
			}
			if !cyclic {
				return "failed (" + res + ") although the requirements are satisfiable and acyclic"
			}
		}
		return ""
	}
	if unsat {
		return "initialization succeeded although a requirement has no provider"
	}
	if len(names) != len(specs) {
		return fmt.Sprintf("%d items resolved out of %d", len(names), len(specs))
	}
	pos := map[*it]int{}
	for i, n := range names {
		if _, dup := pos[n]; dup {
			return "item " + n.name + " appears twice"
		}
		pos[n] = i
	}
	for _, sp := range specs {
		if _, ok := pos[sp]; !ok {
			return "item " + sp.name + " is missing from the resolved order"
		}
	}
	for _, i := range specs {
		for _, e := range i.requires {
			for _, q := range providers[e] {
				if q == i || down[i][q] {
					continue
				}
				if pos[q] > pos[i] {
					return fmt.Sprintf("%s runs before %s, which provides its input %s", i.name, q.name, e)
				}
			}
		}
	}
	return ""
}

// regionClass: "duplicated-providers-general" for item sets in the decidable class of the known finding D8,
// "resolve-order" otherwise
func regionClass(specs []*it) string {
	class := "resolve-order"
	// decidable class of the known finding D8: some entity has two or more providers and the set is not the
	// simple base+refiner shape (every such entity has exactly two providers, exactly one of which also
	// requires it, and no item takes part in two such pairs) - the shape of the built-in items
	multi := map[string][]*it{}
	for _, sp := range specs {
		for _, e := range sp.provides {
			multi[e] = append(multi[e], sp)
		}
	}
	// BFS distance from the roots (items without requirements) in the item/entity graph, as BreadthSort sees it
	dist := map[*it]int{}
	edist := map[string]int{}
	for changed, round := true, 0; changed && round < 64; round++ {
		changed = false
		for _, sp := range specs {
			d := 1 << 20
			if len(sp.requires) == 0 {
				d = 0
			}
			for _, r := range sp.requires {
				if ed, ok := edist[r]; ok && ed+1 < d {
					d = ed + 1
				}
			}
			if old, ok := dist[sp]; d < 1<<20 && (!ok || d < old) {
				dist[sp] = d
				changed = true
			}
			if dd, ok := dist[sp]; ok {
				for _, e := range sp.provides {
					if old, ok2 := edist[e]; !ok2 || dd+1 < old {
						edist[e] = dd + 1
						changed = true
					}
				}
			}
		}
	}
	involved := map[*it]int{}
	for e, ps := range multi {
		if len(ps) < 2 {
			continue
		}
		refiners := 0
		var base, refiner *it
		for _, q := range ps {
			involved[q]++
			isRef := false
			for _, r := range q.requires {
				if r == e {
					isRef = true
				}
			}
			if isRef {
				refiners++
				refiner = q
			} else {
				base = q
			}
		}
		if !(len(ps) == 2 && refiners == 1) {
			class = "duplicated-providers-general"
		} else {
			// the chaining picks the provider that comes later in breadth-first order as the refiner: only
			// when the base provider is strictly closer to the roots is that choice the right one (built-in
			// pairs TreeDiff/RenameAnalysis and FileDiff/FileDiffRefiner have this shape)
			db, okb := dist[base]
			dr, okr := dist[refiner]
			if !okb || !okr || db >= dr {
				class = "duplicated-providers-general"
			}
		}
	}
	for _, pairs := range involved {
		if pairs > 1 {
			class = "duplicated-providers-general" // an item in two such pairs (e.g. one refiner of two entities)
		}
	}
	return class
}

func main() {
	seed, count, wo, wi, _, done := hv.Args()
	defer done()
	stats := map[string]int{}
	for k := 0; k < count; k++ {
		rng := rand.New(rand.NewSource(seed + int64(k)))
		n := 1 + rng.Intn(7)
		// names with mixed case so that "[" sorts between them
		pool := []string{"Alpha", "beta", "Gamma", "delta", "Eps", "zeta", "Eta", "theta", "Iota"}
		rng.Shuffle(len(pool), func(i, j int) { pool[i], pool[j] = pool[j], pool[i] })
		ents := []string{"a", "B", "c", "D", "e", "F"}
		shape := rng.Intn(6) // 0: duplicated providers at will, 1: base + refiner, else at most one provider per entity
		ambiguousOK := shape == 0
		provided := map[string]int{}
		var specs []*it
		for i := 0; i < n; i++ {
			s := &it{name: pool[i]}
			if i > 0 && rng.Intn(6) == 0 {
				s.name = specs[rng.Intn(i)].name // two items of the same type: nodes <name>_1, <name>_2 in insertion order
			}
			for _, e := range ents {
				if rng.Intn(5) == 0 && (ambiguousOK || provided[e] == 0) {
					s.provides = append(s.provides, e)
					provided[e]++
				}
			}
			specs = append(specs, s)
		}
		for _, s := range specs {
			for _, e := range ents {
				r := rng.Intn(12)
				if (provided[e] > 0 && r < 3) || r == 0 {
					s.requires = append(s.requires, e)
				}
			}
		}
		if shape == 1 {
			// the TreeDiff/RenameAnalysis shape: one more item requires and provides an entity that has a provider
			var cand []string
			for e, c := range provided {
				if c == 1 {
					cand = append(cand, e)
				}
			}
			sort.Strings(cand)
			if len(cand) > 0 && n < len(pool) {
				e := cand[rng.Intn(len(cand))]
				ref := &it{name: pool[n], provides: []string{e}, requires: []string{e}}
				for _, x := range ents {
					if provided[x] == 0 && rng.Intn(3) == 0 {
						ref.provides = append(ref.provides, x)
						provided[x]++
					}
				}
				rng.Shuffle(len(ref.provides), func(i, j int) { ref.provides[i], ref.provides[j] = ref.provides[j], ref.provides[i] })
				specs = append(specs, ref)
				provided[e]++
				// and at least one more consumer of the refined entity
				if len(specs) > 2 {
					c := specs[rng.Intn(len(specs)-1)]
					has := false
					for _, r := range c.requires {
						if r == e {
							has = true
						}
					}
					prov := false
					for _, pe := range c.provides {
						if pe == e {
							prov = true
						}
					}
					if !has && !prov {
						c.requires = append(c.requires, e)
					}
				}
			}
		}
		amb := false
		for _, c := range provided {
			if c > 1 {
				amb = true
			}
		}
		// node numbering by string order
		var nodes []string
		seen := map[string]bool{}
		add := func(s string) {
			if !seen[s] {
				seen[s] = true
				nodes = append(nodes, s)
			}
		}
		usage := map[string]int{}
		for _, s := range specs {
			usage[s.name]++
		}
		cnt := map[string]int{}
		node := map[*it]string{}
		for _, s := range specs {
			node[s] = s.name
			if usage[s.name] > 1 {
				cnt[s.name]++
				node[s] = fmt.Sprintf("%s_%d", s.name, cnt[s.name])
			}
		}
		for _, s := range specs {
			add(node[s])
			for _, e := range s.provides {
				add("[" + e + "]")
			}
			for _, e := range s.requires {
				add("[" + e + "]")
			}
		}
		sort.Strings(nodes)
		id := map[string]int{}
		for i, s := range nodes {
			id[s] = i
		}
		sorted := append([]*it{}, specs...)
		sort.SliceStable(sorted, func(i, j int) bool { return sorted[i].name < sorted[j].name })
		var parts []string
		for _, s := range sorted {
			var ps, rs []string
			for _, e := range s.provides {
				ps = append(ps, strconv.Itoa(id["["+e+"]"]))
			}
			for _, e := range s.requires {
				rs = append(rs, strconv.Itoa(id["["+e+"]"]))
			}
			parts = append(parts, fmt.Sprintf("%d:%s:%s", id[node[s]], strings.Join(ps, ","), strings.Join(rs, ",")))
		}
		res, names := run(specs)
		lastClass := regionClass(specs)
		if what := validate(specs, res, names); what != "" {
			var d []map[string]interface{}
			for _, sp := range specs {
				d = append(d, map[string]interface{}{"name": sp.name, "provides": sp.provides, "requires": sp.requires})
			}
			js, _ := json.Marshal(map[string]interface{}{"items": d})
			class := lastClass
			hv.Fail(class, string(js), what)
		}
		// every order the real Initialize returns (outside the known-finding class) also goes through the Lean
		// checker Ord.orderValid, about which `orderValid_sound` is proved
		if res == "ok" && lastClass != "duplicated-providers-general" {
			entID := map[string]int{}
			for i, e := range ents {
				entID[e] = i
			}
			lst := func(es []string) string {
				if len(es) == 0 {
					return "-"
				}
				var x []string
				for _, e := range es {
					x = append(x, strconv.Itoa(entID[e]))
				}
				return strings.Join(x, ",")
			}
			var its []string
			posOf := map[*it]int{}
			for i, sp := range specs {
				its = append(its, lst(sp.provides)+":"+lst(sp.requires))
				posOf[sp] = i
			}
			var ord []string
			for _, x := range names {
				ord = append(ord, strconv.Itoa(posOf[x]))
			}
			fmt.Fprintf(wo, "ord %s %s\n", strings.Join(its, ";"), strings.Join(ord, ","))
			if validate(specs, res, names) == "" {
				fmt.Fprintln(wi, "ok")
			} else {
				fmt.Fprintln(wi, "bad")
			}
			stats["orders-validated"]++
		}
		if amb {
			// information only: is the real result stable over map orders?
			stable := true
			for r := 0; r < 6; r++ {
				res2, names2 := run(specs)
				if res2 != res || fmt.Sprint(names2) != fmt.Sprint(names) {
					stable = false
				}
			}
			if strings.HasPrefix(res, "PANIC") {
				stats["ambiguous-PANIC"]++
			} else if stable {
				stats["ambiguous-stable"]++
			} else {
				stats["ambiguous-UNSTABLE"]++
			}
			continue
		}
		fmt.Fprintf(wo, "res %s\n", strings.Join(parts, " "))
		if res == "ok" {
			var ids []string
			for _, nm := range names {
				ids = append(ids, strconv.Itoa(id[node[nm]]))
			}
			fmt.Fprintf(wi, "ok [%s]\n", strings.Join(ids, ", "))
		} else {
			fmt.Fprintln(wi, res)
		}
		// the premises of the Lean theorem resolveU_sound, decided on both sides
		wf := true
		seenP := map[string]bool{}
		for _, sp := range sorted {
			for _, e := range sp.provides {
				if seenP[e] {
					wf = false
				}
				seenP[e] = true
			}
			seenR := map[string]bool{}
			for _, e := range sp.requires {
				if seenR[e] {
					wf = false
				}
				seenR[e] = true
			}
		}
		fmt.Fprintf(wo, "reswf %s\n", strings.Join(parts, " "))
		fmt.Fprintln(wi, wf)
		if wf {
			stats["resolveU_sound premises hold"]++
			if res == "ok" {
				stats["resolveU_sound premises hold and resolve succeeds"]++
			}
		}
		stats[strings.SplitN(res, " ", 3)[0]+" "+strings.TrimPrefix(res, "err ")]++
	}
	hv.Stats(stats)
}
