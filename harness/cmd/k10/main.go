package main

// Pipeline.resolve (through Initialize dry run) vs. the Lean model on synthetic item sets.
import (
	"bufio"
	"fmt"
	"math/rand"
	"os"
	"sort"
	"strconv"
	"strings"

	"gopkg.in/src-d/go-git.v4"
	"gopkg.in/src-d/go-git.v4/storage/memory"
	"gopkg.in/src-d/hercules.v10/internal/core"
)

type it struct {
	core.NoopMerger
	name     string
	provides []string
	requires []string
}

func (r *it) Name() string                                         { return r.name }
func (r *it) Provides() []string                                   { return r.provides }
func (r *it) Requires() []string                                   { return r.requires }
func (r *it) ListConfigurationOptions() []core.ConfigurationOption { return nil }
func (r *it) Configure(map[string]interface{}) error               { return nil }
func (r *it) Initialize(*git.Repository) error                     { return nil }
func (r *it) Consume(map[string]interface{}) (map[string]interface{}, error) {
	return nil, nil
}
func (r *it) Fork(n int) []core.PipelineItem { return core.ForkSamePipelineItem(r, n) }

func run(specs []*it) (res string, names []string) {
	defer func() {
		if r := recover(); r != nil {
			res = fmt.Sprintf("PANIC %v", r)
			names = nil
		}
	}()
	repo, _ := git.Init(memory.NewStorage(), nil)
	p := core.NewPipeline(repo)
	for _, s := range specs {
		p.AddItem(s)
	}
	err := p.Initialize(map[string]interface{}{core.ConfigPipelineDryRun: true, core.ConfigPipelineCommits: nil})
	if err != nil {
		return "err " + err.Error(), nil
	}

	for _, x := range p.VerifItems() {
		names = append(names, x.Name())
	}
	return "ok", names
}

func main() {
	seed, _ := strconv.ParseInt(os.Args[1], 10, 64)
	count, _ := strconv.Atoi(os.Args[2])
	ops, _ := os.Create(os.Args[3])
	impl, _ := os.Create(os.Args[4])
	wo, wi := bufio.NewWriter(ops), bufio.NewWriter(impl)
	defer wo.Flush()
	defer wi.Flush()
	stats := map[string]int{}
	for k := 0; k < count; k++ {
		rng := rand.New(rand.NewSource(seed + int64(k)))
		n := 1 + rng.Intn(7)
		// names with mixed case so that "[" sorts between them
		pool := []string{"Alpha", "beta", "Gamma", "delta", "Eps", "zeta", "Eta", "theta", "Iota"}
		rng.Shuffle(len(pool), func(i, j int) { pool[i], pool[j] = pool[j], pool[i] })
		ents := []string{"a", "B", "c", "D", "e", "F"}
		ambiguousOK := rng.Intn(5) == 0
		provided := map[string]int{}
		var specs []*it
		for i := 0; i < n; i++ {
			s := &it{name: pool[i]}
			for _, e := range ents {
				if rng.Intn(5) == 0 && (ambiguousOK || provided[e] == 0) {
					s.provides = append(s.provides, e)
					provided[e]++
				}
			}
			specs = append(specs, s)
		}
		for _, s := range specs {
			for _, e := range ents {
				r := rng.Intn(12)
				if (provided[e] > 0 && r < 3) || r == 0 {
					s.requires = append(s.requires, e)
				}
			}
		}
		amb := false
		for _, c := range provided {
			if c > 1 {
				amb = true
			}
		}
		// node numbering by string order
		var nodes []string
		seen := map[string]bool{}
		add := func(s string) {
			if !seen[s] {
				seen[s] = true
				nodes = append(nodes, s)
			}
		}
		for _, s := range specs {
			add(s.name)
			for _, e := range s.provides {
				add("[" + e + "]")
			}
			for _, e := range s.requires {
				add("[" + e + "]")
			}
		}
		sort.Strings(nodes)
		id := map[string]int{}
		for i, s := range nodes {
			id[s] = i
		}
		sorted := append([]*it{}, specs...)
		sort.Slice(sorted, func(i, j int) bool { return sorted[i].name < sorted[j].name })
		var parts []string
		for _, s := range sorted {
			var ps, rs []string
			for _, e := range s.provides {
				ps = append(ps, strconv.Itoa(id["["+e+"]"]))
			}
			for _, e := range s.requires {
				rs = append(rs, strconv.Itoa(id["["+e+"]"]))
			}
			parts = append(parts, fmt.Sprintf("%d:%s:%s", id[s.name], strings.Join(ps, ","), strings.Join(rs, ",")))
		}
		res, names := run(specs)
		if amb {
			// information only: is the real result stable over map orders?
			stable := true
			for r := 0; r < 6; r++ {
				res2, names2 := run(specs)
				if res2 != res || strings.Join(names2, ",") != strings.Join(names, ",") {
					stable = false
				}
			}
			if strings.HasPrefix(res, "PANIC") {
				stats["ambiguous-PANIC"]++
				if stats["ambiguous-PANIC"] <= 2 {
					for _, s := range specs {
						fmt.Fprintf(os.Stderr, "WITNESS %s provides=%v requires=%v\n", s.name, s.provides, s.requires)
					}
				}
			} else if stable {
				stats["ambiguous-stable"]++
			} else {
				stats["ambiguous-UNSTABLE"]++
			}
			continue
		}
		fmt.Fprintf(wo, "res %s\n", strings.Join(parts, " "))
		if res == "ok" {
			var ids []string
			for _, nm := range names {
				ids = append(ids, strconv.Itoa(id[nm]))
			}
			fmt.Fprintf(wi, "ok [%s]\n", strings.Join(ids, ", "))
		} else {
			fmt.Fprintln(wi, res)
		}
		stats[strings.SplitN(res, " ", 3)[0]+" "+strings.TrimPrefix(res, "err ")]++
	}
	fmt.Fprintln(os.Stderr, stats)
}
