package main

// BurndownAnalysis.Consume (one branch, non-merge commits) vs. the Lean interpreter model.
import (
	"bufio"
	"fmt"
	"math/rand"
	"os"
	"sort"
	"strconv"
	"strings"
	"time"

	"github.com/sergi/go-diff/diffmatchpatch"
	"gopkg.in/src-d/go-git.v4/plumbing"
	"gopkg.in/src-d/go-git.v4/plumbing/object"
	"gopkg.in/src-d/hercules.v10/internal/burndown"
	"gopkg.in/src-d/hercules.v10/internal/core"
	items "gopkg.in/src-d/hercules.v10/internal/plumbing"
	"gopkg.in/src-d/hercules.v10/internal/plumbing/identity"
	"gopkg.in/src-d/hercules.v10/leaves"
	"gopkg.in/src-d/hercules.v10/verifharness/hv"
)

const missing = (1 << 18) - 2

func blob(rng *rand.Rand, cache map[plumbing.Hash]*items.CachedBlob, lines int) plumbing.Hash {
	var h plumbing.Hash
	rng.Read(h[:])
	data := []byte(strings.Repeat("x\n", lines))
	cache[h] = &items.CachedBlob{Blob: object.Blob{Hash: h, Size: int64(len(data))}, Data: data}
	return h
}

func entry(name string, h plumbing.Hash) object.ChangeEntry {
	return object.ChangeEntry{Name: name, TreeEntry: object.TreeEntry{Name: name, Mode: 0100644, Hash: h}}
}

func classify(err error) string {
	m := err.Error()
	switch {
	case strings.Contains(m, "already exists"):
		return "file already exists"
	case strings.Contains(m, "integrity error src"):
		return "integrity src"
	case strings.Contains(m, "integrity error dst"):
		return "integrity dst"
	case strings.Contains(m, "DiffInsert may not"):
		return "DiffInsert may not appear after DiffInsert"
	case strings.Contains(m, "DiffDelete may not"):
		return "DiffDelete may not appear after DiffInsert/DiffDelete"
	}
	return m
}

func filesOf(ba *leaves.BurndownAnalysis) string {
	files, _, _, _ := leaves.VerifBurndownState(ba)
	return fmtFiles(files)
}

func fmtFiles(files map[string][][2]int) string {
	var names []int
	for n := range files {
		k, _ := strconv.Atoi(n[1:])
		names = append(names, k)
	}
	sort.Ints(names)
	var fs []string
	for _, n := range names {
		var ns []string
		for _, nd := range files[fmt.Sprintf("f%d", n)] {
			if nd[1] == -1 {
				ns = append(ns, fmt.Sprintf("%d:E", nd[0]))
			} else {
				ns = append(ns, fmt.Sprintf("%d:%d", nd[0], nd[1]))
			}
		}
		fs = append(fs, fmt.Sprintf("f%d= %s", n, strings.Join(ns, " ")))
	}
	return strings.Join(fs, " ; ")
}

func tables(ba *leaves.BurndownAnalysis) string {
	_, g, p, m := leaves.VerifBurndownState(ba)
	var gs, ps, ms []string
	var cs []int
	for c := range g {
		cs = append(cs, c)
	}
	sort.Ints(cs)
	for _, c := range cs {
		var bs []int
		for b := range g[c] {
			bs = append(bs, b)
		}
		sort.Ints(bs)
		for _, b := range bs {
			gs = append(gs, fmt.Sprintf("%d/%d=%d", c, b, g[c][b]))
		}
	}
	for a, h := range p {
		var cs []int
		for c := range h {
			cs = append(cs, c)
		}
		sort.Ints(cs)
		for _, c := range cs {
			var bs []int
			for b := range h[c] {
				bs = append(bs, b)
			}
			sort.Ints(bs)
			for _, b := range bs {
				ps = append(ps, fmt.Sprintf("%d/%d/%d=%d", a, c, b, h[c][b]))
			}
		}
	}
	for o, row := range m {
		var ns []int
		for n := range row {
			ns = append(ns, n)
		}
		sort.Ints(ns)
		for _, n := range ns {
			ms = append(ms, fmt.Sprintf("%d/%d=%d", o, n, row[n]))
		}
	}
	return fmt.Sprintf(" | G %s P %s M %s", strings.Join(gs, " "), strings.Join(ps, " "), strings.Join(ms, " "))
}

type gen struct {
	rng   *rand.Rand
	wo    *bufio.Writer
	wi    *bufio.Writer
	pn    int
	brs   map[int]*leaves.BurndownAnalysis
	lens  map[int]map[int]int
	stats map[string]int
	// the largest tick handed to Consume so far, the number of the case (for the oracle's report)
	maxTick, caseNo int
	reportedTick    bool
	reportedMark    bool
}

type change struct {
	op   string
	ch   *object.Change
	diff *items.FileDiffData
	name string
}

func (g *gen) script(cur, target int) (string, []diffmatchpatch.Diff, int) {
	// random canonical script from `cur` lines to exactly `target` lines (target < 0: free)
	rng := g.rng
	var script []string
	var dd []diffmatchpatch.Diff
	add := func(t diffmatchpatch.Operation, c byte, n int) {
		if n == 0 {
			return
		}
		script = append(script, fmt.Sprintf("%c%d", c, n))
		dd = append(dd, diffmatchpatch.Diff{Type: t, Text: strings.Repeat("a", n)})
	}
	left, newLen := cur, 0
	for left > 0 {
		n := 1 + rng.Intn(left)
		if rng.Intn(3) > 0 {
			add(diffmatchpatch.DiffEqual, 'e', n)
			newLen += n
		} else {
			add(diffmatchpatch.DiffDelete, 'd', n)
			if rng.Intn(2) == 0 {
				k := 1 + rng.Intn(3)
				add(diffmatchpatch.DiffInsert, 'i', k)
				newLen += k
			}
		}
		left -= n
	}
	if target >= 0 {
		if newLen < target {
			// the previous edit may be an insert already: merge by putting an equal-free insert only if allowed
			if len(dd) > 0 && dd[len(dd)-1].Type == diffmatchpatch.DiffInsert {
				k := target - newLen
				dd[len(dd)-1].Text += strings.Repeat("a", k)
				prev := script[len(script)-1]
				pn, _ := strconv.Atoi(prev[1:])
				script[len(script)-1] = fmt.Sprintf("i%d", pn+k)
			} else {
				add(diffmatchpatch.DiffInsert, 'i', target-newLen)
			}
			newLen = target
		} else if newLen > target {
			return g.script(cur, -2) // fallback: delete everything, insert target
		}
	}
	if target == -2 {
		script, dd = nil, nil
		newLen = 0
		add(diffmatchpatch.DiffDelete, 'd', cur)
	}
	return strings.Join(script, ","), dd, newLen
}

func (g *gen) full(cur, target int) (string, []diffmatchpatch.Diff) {
	sc, dd, nl := g.script(cur, target)
	if nl != target {
		// rewrite: delete all, insert target
		var parts []string
		dd = nil
		if cur > 0 {
			parts = append(parts, fmt.Sprintf("d%d", cur))
			dd = append(dd, diffmatchpatch.Diff{Type: diffmatchpatch.DiffDelete, Text: strings.Repeat("a", cur)})
		}
		if target > 0 {
			parts = append(parts, fmt.Sprintf("i%d", target))
			dd = append(dd, diffmatchpatch.Diff{Type: diffmatchpatch.DiffInsert, Text: strings.Repeat("a", target)})
		}
		sc = strings.Join(parts, ",")
	}
	if sc == "" {
		sc = "-"
	}
	return sc, dd
}

// one Consume call on branch b with the given changes
func (g *gen) consume(b, tick, author int, merge bool, chs []change) bool {
	cache := map[plumbing.Hash]*items.CachedBlob{}
	diffs := map[string]items.FileDiffData{}
	var changes object.Changes
	m := 0
	if merge {
		m = 1
	}
	fmt.Fprintf(g.wo, "begin %d %d %d %d\n", b, tick, author, m)
	if tick > g.maxTick {
		g.maxTick = tick
	}
	for _, c := range chs {
		fmt.Fprintln(g.wo, c.op)
		changes = append(changes, c.ch)
		if c.diff != nil {
			diffs[c.name] = *c.diff
		}
	}
	fmt.Fprintf(g.wo, "end %d %d\n", b, tick)
	// blobs referenced by the changes were registered in g.cache
	for h, cb := range blobCache {
		cache[h] = cb
	}
	deps := map[string]interface{}{
		core.DependencyCommit:       &object.Commit{},
		core.DependencyIsMerge:      merge,
		identity.DependencyAuthor:   author,
		items.DependencyTick:        tick,
		items.DependencyBlobCache:   cache,
		items.DependencyTreeChanges: changes,
		items.DependencyFileDiff:    diffs,
	}
	ok := true
	func() {
		defer func() {
			if r := recover(); r != nil {
				ok = false
				g.stats["panic"]++
				fmt.Fprintln(g.wi, "err panic")
			}
		}()
		_, err := g.brs[b].Consume(deps)
		if err != nil {
			ok = false
			cl := classify(err)
			g.stats[cl]++
			fmt.Fprintf(g.wi, "err %s\n", cl)
			return
		}
		g.stats["consume"]++
		fmt.Fprintln(g.wi, "ok")
	}()
	return ok
}

var blobCache = map[plumbing.Hash]*items.CachedBlob{}

func (g *gen) normalCommit(b, tick int) bool {
	rng := g.rng
	author := missing
	if g.pn > 0 && rng.Intn(8) != 0 {
		author = rng.Intn(g.pn)
	}
	var chs []change
	used := map[int]bool{}
	for k := 1 + rng.Intn(3); k > 0; k-- {
		f := rng.Intn(4)
		if rng.Intn(4) == 0 {
			f = rng.Intn(8) // names f4..f7 come into being through renames only
		}
		if used[f] {
			continue
		}
		if _, there := g.lens[b][f]; !there && f >= 4 {
			continue
		}
		used[f] = true
		name := fmt.Sprintf("f%d", f)
		cur, exists := g.lens[b][f]
		r := rng.Intn(10)
		switch {
		case !exists:
			n := rng.Intn(6)
			chs = append(chs, change{op: fmt.Sprintf("add %d %d %d", b, f, n), ch: &object.Change{To: entry(name, blob(rng, blobCache, n))}})
			g.lens[b][f] = n
		case r == 0:
			chs = append(chs, change{op: fmt.Sprintf("rm %d %d %d", b, f, cur), ch: &object.Change{From: entry(name, blob(rng, blobCache, cur))}})
			delete(g.lens[b], f)
		case r == 1 && !used[(f+4)%8]:
			// a rename reported together with an edit (f0 <-> f4, f1 <-> f5 ...); the new name may be in use
			to := (f + 4) % 8
			used[to] = true
			sc, dd, nl := g.script(cur, -1)
			if sc == "" {
				sc = "-"
			}
			toName := fmt.Sprintf("f%d", to)
			chs = append(chs, change{op: fmt.Sprintf("ren %d %d %d %d %d %s", b, f, to, cur, nl, sc), name: toName,
				ch:   &object.Change{From: entry(name, blob(rng, blobCache, cur)), To: entry(toName, blob(rng, blobCache, nl))},
				diff: &items.FileDiffData{OldLinesOfCode: cur, NewLinesOfCode: nl, Diffs: dd}})
			delete(g.lens[b], f)
			g.lens[b][to] = nl
			g.stats["rename-with-edit"]++
		default:
			sc, dd, nl := g.script(cur, -1)
			if sc == "" {
				sc = "-"
			}
			chs = append(chs, change{op: fmt.Sprintf("mod %d %d %d %d %s", b, f, cur, nl, sc), name: name,
				ch:   &object.Change{From: entry(name, blob(rng, blobCache, cur)), To: entry(name, blob(rng, blobCache, nl))},
				diff: &items.FileDiffData{OldLinesOfCode: cur, NewLinesOfCode: nl, Diffs: dd}})
			g.lens[b][f] = nl
		}
	}
	return g.consume(b, tick, author, false, chs)
}

func (g *gen) obs() {
	var ids []int
	for b := range g.brs {
		ids = append(ids, b)
	}
	sort.Ints(ids)
	// Go-side statement shared by C01/C07: outside a merge in progress every tracked line carries the tick of a commit
	// that was analysed - never a later one, never the merge mark
	for _, b := range ids {
		files, _, _, _ := leaves.VerifBurndownState(g.brs[b])
		for fname, nodes := range files {
			for _, nd := range nodes[:len(nodes)-1] {
				if t := nd[1] & burndown.TreeMergeMark; t > g.maxTick && !g.reportedTick {
					g.reportedTick = true
					hv.Fail("line-tick", fmt.Sprintf(`{"case":%d,"branch":%d,"file":%q,"interval":%v}`, g.caseNo, b, fname, nd),
						fmt.Sprintf("branch %d, %s: the lines from %d on carry tick %d, the latest analysed commit has tick %d", b, fname, nd[0], t, g.maxTick))
				}
			}
		}
	}
	// C07 "reported once, stamped with the merge commit's tick": the replay of a merge commit on a branch is silent
	// (whatever author the stamp packs), so no record of the project or a developer's history is ever filed under the
	// merge mark - neither as the tick of the report nor as the tick the lines were born at
	{
		_, gh, ph, _ := leaves.VerifBurndownState(g.brs[ids[0]])
		check := func(who string, h map[int]map[int]int64) {
			for c, row := range h {
				for b, d := range row {
					if (c == burndown.TreeMergeMark || b == burndown.TreeMergeMark) && d != 0 && !g.reportedMark {
						g.reportedMark = true
						hv.Fail("mark-reported", fmt.Sprintf(`{"case":%d,"people":%d,"history":%q,"tick":%d,"born":%d,"delta":%d}`, g.caseNo, g.pn, who, c, b, d),
							fmt.Sprintf("%s history: %d line(s) reported at tick %d for birth tick %d - the merge mark itself was reported", who, d, c, b))
					}
				}
			}
		}
		check("project", gh)
		for a, h := range ph {
			check(fmt.Sprintf("developer %d", a), h)
		}
	}
	var parts []string
	for _, b := range ids {
		parts = append(parts, fmt.Sprintf("B%d[%s]", b, filesOf(g.brs[b])))
	}
	fmt.Fprintln(g.wo, "obs")
	fmt.Fprintln(g.wi, strings.Join(parts, " ")+tables(g.brs[ids[0]]))
}

func main() {
	seed, _ := strconv.ParseInt(os.Args[1], 10, 64)
	count, _ := strconv.Atoi(os.Args[2])
	ops, _ := os.Create(os.Args[3])
	impl, _ := os.Create(os.Args[4])
	wo, wi := bufio.NewWriter(ops), bufio.NewWriter(impl)
	defer wo.Flush()
	defer wi.Flush()
	stats := map[string]int{}
	var prevBA *leaves.BurndownAnalysis
	for it := 0; it < count; it++ {
		rng := rand.New(rand.NewSource(seed + int64(it)))
		blobCache = map[plumbing.Hash]*items.CachedBlob{}
		pn := rng.Intn(4)
		ba := &leaves.BurndownAnalysis{Granularity: 30, Sampling: 30, PeopleNumber: pn, TickSize: 24 * time.Hour}
		if prevBA != nil && rng.Intn(3) == 0 {
			// Initialize on an object that has already analysed a history starts from scratch (the model always does)
			ba = prevBA
			ba.PeopleNumber = pn
			stats["reinitialized-object"]++
		}
		prevBA = ba
		ba.Initialize(nil)
		g := &gen{rng: rng, wo: wo, wi: wi, pn: pn, brs: map[int]*leaves.BurndownAnalysis{1: ba}, lens: map[int]map[int]int{1: {}}, stats: stats, caseNo: it}
		fmt.Fprintf(wo, "init %d\n", pn)
		fmt.Fprintln(wi, "ok")
		tick := 0
		ok := true
		for c := 0; c < 1+rng.Intn(3) && ok; c++ {
			tick += rng.Intn(3)
			ok = g.normalCommit(1, tick)
		}
		if !ok {
			continue
		}
		g.obs()
		for round := 0; round < 1+rng.Intn(2) && ok; round++ {
			nb := 2 + rng.Intn(2)
			var targets []int
			var ts []string
			clones := g.brs[1].Fork(nb - 1)
			for i := 0; i < nb-1; i++ {
				id := 2 + i
				g.brs[id] = clones[i].(*leaves.BurndownAnalysis)
				g.lens[id] = map[int]int{}
				for k, v := range g.lens[1] {
					g.lens[id][k] = v
				}
				targets = append(targets, id)
				ts = append(ts, strconv.Itoa(id))
			}
			fmt.Fprintf(wo, "fork 1 %s\n", strings.Join(ts, ","))
			fmt.Fprintln(wi, "ok")
			all := append([]int{1}, targets...)
			for _, b := range all {
				for c := 0; c < rng.Intn(3) && ok; c++ {
					tick += rng.Intn(2)
					ok = g.normalCommit(b, tick)
				}
			}
			if !ok {
				break
			}
			g.obs()
			// the merge commit, replayed on every branch
			tick += rng.Intn(2)
			author := missing
			if pn > 0 && rng.Intn(8) != 0 {
				author = rng.Intn(pn)
			}
			target := map[int]int{}
			for f := 0; f < 8; f++ {
				target[f] = rng.Intn(7)
			}
			skipFile := map[int]bool{}
			for f := 0; f < 8; f++ {
				skipFile[f] = rng.Intn(4) == 0
			}
			touchedByMerge := map[int]bool{}
			for _, b := range all {
				if !ok {
					break
				}
				var chs []change
				renamedTo := map[int]bool{}
				for f := 0; f < 8; f++ {
					if skipFile[f] || renamedTo[f] {
						continue
					}
					name := fmt.Sprintf("f%d", f)
					cur, exists := g.lens[b][f]
					L := target[f]
					if rng.Intn(30) == 0 {
						L++ // lengths will differ between branches: File.Merge panics
					}
					to := f + 4
					_, toExists := g.lens[b][to]
					switch {
					case exists && f < 4 && !toExists && !skipFile[to] && rng.Intn(6) == 0:
						// against this parent the merge commit shows the file under a new name, with edits
						touchedByMerge[f], touchedByMerge[to] = true, true
						renamedTo[to] = true
						L = target[to]
						sc, dd := g.full(cur, L)
						toName := fmt.Sprintf("f%d", to)
						chs = append(chs, change{op: fmt.Sprintf("ren %d %d %d %d %d %s", b, f, to, cur, L, sc), name: toName,
							ch:   &object.Change{From: entry(name, blob(rng, blobCache, cur)), To: entry(toName, blob(rng, blobCache, L))},
							diff: &items.FileDiffData{OldLinesOfCode: cur, NewLinesOfCode: L, Diffs: dd}})
						delete(g.lens[b], f)
						g.lens[b][to] = L
						stats["rename-with-edit-in-merge"]++
					case !exists && f >= 4:
					case !exists && rng.Intn(3) > 0:
						touchedByMerge[f] = true
						chs = append(chs, change{op: fmt.Sprintf("add %d %d %d", b, f, L), ch: &object.Change{To: entry(name, blob(rng, blobCache, L))}})
						g.lens[b][f] = L
					case !exists:
					case rng.Intn(12) == 0:
						touchedByMerge[f] = true
						chs = append(chs, change{op: fmt.Sprintf("rm %d %d %d", b, f, cur), ch: &object.Change{From: entry(name, blob(rng, blobCache, cur))}})
						delete(g.lens[b], f)
					default:
						touchedByMerge[f] = true
						sc, dd := g.full(cur, L)
						chs = append(chs, change{op: fmt.Sprintf("mod %d %d %d %d %s", b, f, cur, L, sc), name: name,
							ch:   &object.Change{From: entry(name, blob(rng, blobCache, cur)), To: entry(name, blob(rng, blobCache, L))},
							diff: &items.FileDiffData{OldLinesOfCode: cur, NewLinesOfCode: L, Diffs: dd}})
						g.lens[b][f] = L
					}
				}
				ok = g.consume(b, tick, author, true, chs)
			}
			if !ok {
				break
			}
			var ms []string
			var others []core.PipelineItem
			for _, b := range all {
				ms = append(ms, strconv.Itoa(b))
				if b != 1 {
					others = append(others, g.brs[b])
				}
			}
			fmt.Fprintf(wo, "merge %s\n", strings.Join(ms, ","))
			// files the merge commit did not touch on any branch must come out of Merge exactly as they went in
			before := map[int]map[string][][2]int{}
			for _, b := range all {
				before[b], _, _, _ = leaves.VerifBurndownState(g.brs[b])
			}
			func() {
				defer func() {
					if r := recover(); r != nil {
						ok = false
						stats["merge-panic"]++
						fmt.Fprintln(wi, "err panic")
					}
				}()
				g.brs[1].Merge(others)
				stats["merge"]++
				fmt.Fprintln(wi, "ok")
			}()
			if !ok {
				break
			}
			// Go-side statement of C07 on the analysis level: after the merge no line of any participating branch
			// still carries the merge mark (every line was resolved to a real tick or to the merge tick)
			for _, b := range all {
				bf, _, _, _ := leaves.VerifBurndownState(g.brs[b])
				for fname, nodes := range bf {
					for _, nd := range nodes[:len(nodes)-1] {
						if nd[1]&burndown.TreeMergeMark == burndown.TreeMergeMark {
							hv.Fail("merge-mark-left", fmt.Sprintf(`{"seed":%d,"case":%d,"branch":%d,"file":%q}`, seed, it, b, fname),
								fmt.Sprintf("after the merge of branches %v, branch %d still has unresolved (merge-marked) lines from line %d of %s", all, b, nd[0], fname))
						}
					}
				}
			}
			// ... and for every file the merge commit touched on some branch all participating branches agree: they
			// all lack it or all hold the same interval list (statement of theorem merge_all_identical on the real code)
			for _, b := range all {
				after, _, _, _ := leaves.VerifBurndownState(g.brs[b])
				for f := 0; f < 8; f++ {
					fname := fmt.Sprintf("f%d", f)
					if !touchedByMerge[f] && fmt.Sprint(before[b][fname]) != fmt.Sprint(after[fname]) {
						hv.Fail("merge-frame", fmt.Sprintf(`{"seed":%d,"case":%d,"branch":%d,"file":%q}`, seed, it, b, fname),
							fmt.Sprintf("the merge commit did not touch %s on any branch, yet Merge changed it on branch %d from %v to %v", fname, b, before[b][fname], after[fname]))
					}
				}
			}
			for f := range touchedByMerge {
				fname := fmt.Sprintf("f%d", f)
				ref0, _, _, _ := leaves.VerifBurndownState(g.brs[all[0]])
				for _, b := range all[1:] {
					bf, _, _, _ := leaves.VerifBurndownState(g.brs[b])
					if fmt.Sprint(bf[fname]) != fmt.Sprint(ref0[fname]) {
						hv.Fail("merge-disagree", fmt.Sprintf(`{"seed":%d,"case":%d,"branches":%q,"file":%q}`, seed, it, fmt.Sprint(all), fname),
							fmt.Sprintf("after the merge branch %d holds %v for %s, branch %d holds %v", all[0], ref0[fname], fname, b, bf[fname]))
					}
				}
			}
			g.obs()
			// the other branches are disposed; branch 1 goes on
			for _, b := range targets {
				delete(g.brs, b)
				fmt.Fprintf(wo, "drop %d\n", b)
				fmt.Fprintln(wi, "ok")
			}
			// ground truth of branch 1 after the merge: every merged file exists with the merged length
			files, _, _, _ := leaves.VerifBurndownState(g.brs[1])
			g.lens[1] = map[int]int{}
			for n, nodes := range files {
				k, _ := strconv.Atoi(n[1:])
				g.lens[1][k] = nodes[len(nodes)-1][0]
			}
			tick += rng.Intn(2)
			ok = g.normalCommit(1, tick)
			if ok {
				g.obs()
			}
		}
	}
	fmt.Fprintln(os.Stderr, stats)
}
