// k19r: TicksSinceStart.Consume with its shared registry and per-branch previous tick, under Fork (C19, C08).
// A case: one item, forked into 1-3 further branches; a replay sequence in which merge commits are replayed on
// several branches (same commit, same committer time) and ordinary commits once; committer times monotone along the
// sequence in half of the cases, arbitrary otherwise.
// ops: tnew <tick hours> | tfork <src> <dst> | tmerge <branch>... | tcons <branch> <commit> <parents> <abs ns> <index>
// impl: <tick> | <tick>:[commits] ...      (registry sorted by tick)
// oracle: every analysed commit is listed under the tick it was given; with monotone times exactly once.
package main

import (
	"encoding/json"
	"fmt"
	"math/big"
	"math/rand"
	"sort"
	"strings"
	"time"

	"gopkg.in/src-d/go-git.v4"
	"gopkg.in/src-d/go-git.v4/plumbing"
	"gopkg.in/src-d/go-git.v4/plumbing/object"
	"gopkg.in/src-d/go-git.v4/storage/memory"
	"gopkg.in/src-d/hercules.v10/internal/core"
	items "gopkg.in/src-d/hercules.v10/internal/plumbing"
	"gopkg.in/src-d/hercules.v10/verifharness/hv"
)

func abs(t time.Time) *big.Int {
	s := big.NewInt(t.Unix())
	s.Add(s, big.NewInt(62135596800))
	s.Mul(s, big.NewInt(1000000000))
	s.Add(s, big.NewInt(int64(t.Nanosecond())))
	return s
}

func main() {
	seed, count, wo, wi, _, done := hv.Args()
	defer done()
	rng := rand.New(rand.NewSource(seed))
	nReused := 0
	defer func() { hv.Stats(map[string]int{"cases_on_a_reinitialized_object": nReused}) }()
	var prev *items.TicksSinceStart
	for it := 0; it < count; it++ {
		hours := []int{1, 6, 24, 168}[rng.Intn(4)]
		ts := &items.TicksSinceStart{}
		reused := false
		if prev != nil && rng.Intn(2) == 0 {
			reused = true
			// a second Configure + Initialize on an object that has already analysed a history starts from scratch
			// (the model always does: `tnew`)
			ts = prev
			nReused++
		}
		prev = ts
		facts := map[string]interface{}{items.ConfigTicksSinceStartTickSize: hours}
		ts.Configure(facts)
		repo, _ := git.Init(memory.NewStorage(), nil)
		ts.Initialize(repo)
		registry := facts[items.FactCommitsByTick].(map[int][]plumbing.Hash)
		fmt.Fprintf(wo, "tnew %d\n", hours)
		fmt.Fprintln(wi, "ok")
		branches := []*items.TicksSinceStart{ts}
		nc := 2 + rng.Intn(8)
		monotone := rng.Intn(2) == 0
		base := time.Date(1985+rng.Intn(50), 3, 1, rng.Intn(24), 0, 0, 0, time.UTC)
		type cm struct {
			c  *object.Commit
			np int
		}
		commits := make([]cm, nc)
		cid := map[plumbing.Hash]int{}
		cur := base
		for i := range commits {
			var h plumbing.Hash
			rng.Read(h[:])
			if monotone {
				cur = cur.Add(time.Duration(rng.Intn(hours*3*3600)) * time.Second)
			} else {
				cur = base.Add(time.Duration(rng.Intn(hours*20*3600)-hours*3*3600) * time.Second)
			}
			np := []int{1, 1, 2, 2, 3, 1, 1, 2, 0}[rng.Intn(9)] // 0: a further root commit later in the history
			if i == 0 {
				np = 0
			}
			c := &object.Commit{Hash: h, Committer: object.Signature{When: cur}}
			for p := 0; p < np; p++ {
				c.ParentHashes = append(c.ParentHashes, plumbing.Hash{byte(p + 1)})
			}
			commits[i] = cm{c, np}
			cid[h] = i
		}
		var log [][3]int
		lastTick := map[int]int{}
		index := 0
		given := map[int]map[int]bool{} // commit -> ticks it was given
		dumpReg := func() string {
			var ticks []int
			for t := range registry {
				ticks = append(ticks, t)
			}
			sort.Ints(ticks)
			var out []string
			for _, t := range ticks {
				var cs []string
				for _, h := range registry[t] {
					cs = append(cs, fmt.Sprint(cid[h]))
				}
				out = append(out, fmt.Sprintf("%d:[%s]", t, strings.Join(cs, ",")))
			}
			return strings.Join(out, " ")
		}
		consume := func(b, i int) {
			c := commits[i]
			fmt.Fprintf(wo, "tcons %d %d %d %s %d\n", b, i, c.np, abs(c.c.Committer.When), index)
			r, _ := branches[b].Consume(map[string]interface{}{core.DependencyCommit: c.c, core.DependencyIndex: index, core.DependencyIsMerge: false})
			index++
			tick := r[items.DependencyTick].(int)
			fmt.Fprintf(wi, "%d | %s\n", tick, dumpReg())
			// ticks never decrease along a branch (a clone starts from the tick its source had reached)
			if last, ok := lastTick[b]; ok && tick < last {
				hv.Fail("tick-decreased", fmt.Sprintf(`{"seed":%d,"case":%d,"branch":%d,"commit":%d}`, seed, it, b, i),
					fmt.Sprintf("branch %d was at tick %d and got tick %d for commit %d", b, last, tick, i))
			}
			lastTick[b] = tick
			if monotone {
				// with non-decreasing committer times the tick is the floored elapsed time since the floored first time
				size := time.Duration(hours) * time.Hour
				want := int(c.c.Committer.When.Sub(commits[0].c.Committer.When.Truncate(size)) / size)
				if tick != want {
					var ts []int64
					for _, x := range commits {
						ts = append(ts, x.c.Committer.When.Unix())
					}
					j, _ := json.Marshal(map[string]interface{}{"seed": seed, "case": it, "tick_hours": hours, "times": ts, "branch": b, "commit": i,
						"object_reused_after_an_earlier_history": reused})
					hv.Fail("wrong-tick", string(j), fmt.Sprintf("commit %d (monotone times) got tick %d, the floored elapsed time is %d", i, tick, want))
				}
			}
			log = append(log, [3]int{b, i, tick})
			if given[i] == nil {
				given[i] = map[int]bool{}
			}
			given[i][tick] = true
		}
		if rng.Intn(3) == 0 {
			// a clone taken before the first commit (Pipeline.Run keeps such a pristine clone for further root
			// branches): it must see the same start of the time axis as the branch that consumes the first commit
			clone := branches[0].Fork(1)[0].(*items.TicksSinceStart)
			branches = append(branches, clone)
			fmt.Fprintf(wo, "tfork %d %d\n", 0, len(branches)-1)
			fmt.Fprintln(wi, "ok")
		}
		consume(0, 0)
		for i := 1; i < nc; i++ {
			if len(branches) < 4 && rng.Intn(3) == 0 {
				src := rng.Intn(len(branches))
				clone := branches[src].Fork(1)[0].(*items.TicksSinceStart)
				branches = append(branches, clone)
				fmt.Fprintf(wo, "tfork %d %d\n", src, len(branches)-1)
				if lt, ok := lastTick[src]; ok {
					lastTick[len(branches)-1] = lt
				}
				fmt.Fprintln(wi, "ok")
			}
			if commits[i].np >= 2 && len(branches) >= 2 {
				// a merge commit is replayed on several branches, one after the other
				k := 2 + rng.Intn(len(branches)-1)
				chosen := rng.Perm(len(branches))[:k]
				for _, b := range chosen {
					consume(b, i)
				}
				// ... and the branches are then merged the way core.mergeItems does it: Merge is called on the first
				// one with the others.  For the ticks this must change nothing: every branch goes on from the tick it
				// had reached itself (the model treats `tmerge` as a no-op).
				others := make([]core.PipelineItem, 0, k-1)
				for _, b := range chosen[1:] {
					others = append(others, branches[b])
				}
				branches[chosen[0]].Merge(others)
				fmt.Fprintf(wo, "tmerge %s\n", strings.Trim(fmt.Sprint(chosen), "[]"))
				fmt.Fprintln(wi, "ok")
			} else {
				consume(rng.Intn(len(branches)), i)
			}
		}
		// oracle
		caseJSON := func() string {
			var ts []int64
			for _, c := range commits {
				ts = append(ts, c.c.Committer.When.Unix())
			}
			j, _ := json.Marshal(map[string]interface{}{"tick_hours": hours, "times": ts, "replays_branch_commit_tick": log, "monotone": monotone})
			return string(j)
		}
		for i := range commits {
			if given[i] == nil {
				continue
			}
			listed := 0
			for t, hs := range registry {
				for _, h := range hs {
					if cid[h] == i {
						listed++
						if !given[i][t] {
							hv.Fail("tick-registry", caseJSON(), fmt.Sprintf("commit %d is listed under tick %d, which it was never given", i, t))
						}
					}
				}
			}
			for t := range given[i] {
				found := false
				for _, h := range registry[t] {
					if cid[h] == i {
						found = true
					}
				}
				if !found {
					hv.Fail("tick-registry", caseJSON(), fmt.Sprintf("commit %d was given tick %d but is not listed under it", i, t))
				}
			}
			if monotone && listed != 1 {
				hv.Fail("tick-registry", caseJSON(), fmt.Sprintf("commit %d is listed %d times although committer times never decrease", i, listed))
			}
		}
	}
}
