package main

import (
	"fmt"
	"io/ioutil"
	"log"
	"math/rand"
	"sort"

	"gopkg.in/src-d/go-git.v4"
	"gopkg.in/src-d/go-git.v4/plumbing"
	"gopkg.in/src-d/go-git.v4/plumbing/object"
	"gopkg.in/src-d/go-git.v4/storage/memory"
	"gopkg.in/src-d/go-git.v4/utils/merkletrie"
	items "gopkg.in/src-d/hercules.v10/internal/plumbing"
)

func run(seed int64, repo *git.Repository) string {
	rng := rand.New(rand.NewSource(seed))
	ra := &items.RenameAnalysis{SimilarityThreshold: rng.Intn(101)}
	ra.Initialize(repo)
	cache := map[plumbing.Hash]*items.CachedBlob{}
	nContents := 2 + rng.Intn(5)
	type content struct {
		h    plumbing.Hash
		data []byte
	}
	var contents []content
	for i := 0; i < nContents; i++ {
		var h plumbing.Hash
		rng.Read(h[:])
		n := []int{0, 5, 31, 32, 33, 40, 200}[rng.Intn(7)]
		data := make([]byte, 0, n)
		for len(data) < n {
			data = append(data, []byte(fmt.Sprintf("line %d\n", rng.Intn(5)))...)
		}
		data = data[:n]
		if rng.Intn(6) == 0 && n > 0 {
			data[0] = 0
		}
		cb := &items.CachedBlob{Data: data}
		cb.Size = int64(len(data))
		cb.Hash = h
		cache[h] = cb
		contents = append(contents, content{h, data})
	}
	var changes object.Changes
	delCount, addCount := map[plumbing.Hash]int{}, map[plumbing.Hash]int{}
	var delNames, addNames, modNames []string
	n := 1 + rng.Intn(8)
	for i := 0; i < n; i++ {
		c := contents[rng.Intn(len(contents))]
		name := fmt.Sprintf("dir%d/f%d.txt", rng.Intn(2), i)
		switch rng.Intn(3) {
		case 0:
			changes = append(changes, &object.Change{From: object.ChangeEntry{Name: name, TreeEntry: object.TreeEntry{Name: name, Hash: c.h}}})
			delCount[c.h]++
			delNames = append(delNames, name)
		case 1:
			changes = append(changes, &object.Change{To: object.ChangeEntry{Name: name, TreeEntry: object.TreeEntry{Name: name, Hash: c.h}}})
			addCount[c.h]++
			addNames = append(addNames, name)
		case 2:
			c2 := contents[rng.Intn(len(contents))]
			changes = append(changes, &object.Change{
				From: object.ChangeEntry{Name: name, TreeEntry: object.TreeEntry{Name: name, Hash: c.h}},
				To:   object.ChangeEntry{Name: name, TreeEntry: object.TreeEntry{Name: name, Hash: c2.h}}})
			modNames = append(modNames, name)
		}
	}
	res, err := ra.Consume(map[string]interface{}{items.DependencyTreeChanges: changes, items.DependencyBlobCache: cache})
	if err != nil {
		return err.Error()
	}
	out := res[items.DependencyTreeChanges].(object.Changes)
	var gotDel, gotAdd, gotMod []string
	exact := map[plumbing.Hash]int{}
	for _, c := range out {
		a, _ := c.Action()
		switch a {
		case merkletrie.Insert:
			gotAdd = append(gotAdd, c.To.Name)
		case merkletrie.Delete:
			gotDel = append(gotDel, c.From.Name)
		case merkletrie.Modify:
			if c.From.Name == c.To.Name {
				gotMod = append(gotMod, c.From.Name)
			} else {
				gotDel = append(gotDel, c.From.Name)
				gotAdd = append(gotAdd, c.To.Name)
				if c.From.TreeEntry.Hash == c.To.TreeEntry.Hash {
					exact[c.From.TreeEntry.Hash]++
				}
			}
		}
	}
	for _, p := range [][2][]string{{delNames, gotDel}, {addNames, gotAdd}, {modNames, gotMod}} {
		a, b := append([]string{}, p[0]...), append([]string{}, p[1]...)
		sort.Strings(a)
		sort.Strings(b)
		if fmt.Sprint(a) != fmt.Sprint(b) {
			return fmt.Sprintf("not a re-pairing: %v vs %v", a, b)
		}
	}
	for h, d := range delCount {
		m := d
		if addCount[h] < m {
			m = addCount[h]
		}
		if exact[h] < m {
			return fmt.Sprintf("exact renames for a hash: %d < min(%d,%d)", exact[h], d, addCount[h])
		}
	}
	return ""
}

func main() {
	log.SetOutput(ioutil.Discard)
	repo, _ := git.Init(memory.NewStorage(), nil)
	stats := map[string]int{}
	for seed := int64(1); seed <= 5000; seed++ {
		m := run(seed, repo)
		if m == "" {
			m = "ok"
		}
		if len(m) > 60 {
			m = m[:60]
		}
		if stats[m] == 0 && m != "ok" && len(stats) < 5 {
			fmt.Println("seed", seed, m)
		}
		stats[m]++
	}
	fmt.Println("ok", stats["ok"], "failure kinds", len(stats)-1, "failures", 5000-stats["ok"])
}
