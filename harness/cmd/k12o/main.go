// k12o: core.OneShotMergeProcessor.ShouldConsumeCommit against the Lean model OneShot.should (C12).
// A case is a replay sequence of commits (each commit appears once per branch that replays it: non-merge commits once,
// merge commits 2-5 times, interleaved with other commits) on one shared processor, as the items that embed it fork
// by sharing.  ops: new | call <commit> <parents>   impl: true | false
// oracle: every commit is consumed exactly once however often it is replayed.
package main

import (
	"encoding/json"
	"fmt"
	"math/rand"

	"gopkg.in/src-d/go-git.v4/plumbing"
	"gopkg.in/src-d/go-git.v4/plumbing/object"
	"gopkg.in/src-d/hercules.v10/internal/core"
	"gopkg.in/src-d/hercules.v10/verifharness/hv"
)

func main() {
	seed, count, wo, wi, _, done := hv.Args()
	defer done()
	rng := rand.New(rand.NewSource(seed))
	for it := 0; it < count; it++ {
		proc := &core.OneShotMergeProcessor{}
		proc.Initialize()
		fmt.Fprintln(wo, "new")
		fmt.Fprintln(wi, "ok")
		nc := 1 + rng.Intn(8)
		type cm struct {
			c       *object.Commit
			parents int
		}
		var seq []int
		commits := make([]cm, nc)
		for i := range commits {
			var h plumbing.Hash
			rng.Read(h[:])
			np := []int{0, 1, 1, 1, 2, 2, 3, 4, 5}[rng.Intn(9)]
			c := &object.Commit{Hash: h}
			for p := 0; p < np; p++ {
				var ph plumbing.Hash
				rng.Read(ph[:])
				c.ParentHashes = append(c.ParentHashes, ph)
			}
			commits[i] = cm{c, np}
			replays := 1
			if np > 1 {
				replays = np // once per parent branch
				if rng.Intn(4) == 0 {
					replays = 1 + rng.Intn(np) // fast-forward parents replay less often
				}
			}
			for r := 0; r < replays; r++ {
				seq = append(seq, i)
			}
		}
		// replays of a merge are adjacent in real plans; also try interleavings
		if rng.Intn(2) == 0 {
			rng.Shuffle(len(seq), func(i, j int) { seq[i], seq[j] = seq[j], seq[i] })
		}
		consumed := map[int]int{}
		var calls [][2]int
		for _, i := range seq {
			fmt.Fprintf(wo, "call %d %d\n", i, commits[i].parents)
			r := proc.ShouldConsumeCommit(map[string]interface{}{core.DependencyCommit: commits[i].c})
			fmt.Fprintf(wi, "%v\n", r)
			calls = append(calls, [2]int{i, commits[i].parents})
			if r {
				consumed[i]++
			}
		}
		for i := range commits {
			if consumed[i] != 1 {
				c, _ := json.Marshal(map[string]interface{}{"calls_commit_parents": calls})
				hv.Fail("one-shot", string(c), fmt.Sprintf("commit %d (%d parents) was consumed %d times", i, commits[i].parents, consumed[i]))
				break
			}
		}
	}
}
