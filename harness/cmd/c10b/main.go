package main

import (
	"fmt"
	"io/ioutil"
	"log"
	"os"

	"gopkg.in/src-d/go-git.v4"
	"gopkg.in/src-d/go-git.v4/storage/memory"
	hercules "gopkg.in/src-d/hercules.v10"
	"gopkg.in/src-d/hercules.v10/internal/core"
	_ "gopkg.in/src-d/hercules.v10/leaves"
	_ "gopkg.in/src-d/hercules.v10/leaves/research"
)

func main() {
	log.SetOutput(ioutil.Discard)
	repo, _ := git.Init(memory.NewStorage(), nil)
	leavesL := hercules.Registry.GetLeaves()
	fmt.Println("leaves:", len(leavesL))
	for _, l := range leavesL {
		fmt.Printf("  %s flag=%s requires=%v\n", l.Name(), l.Flag(), l.Requires())
	}
	for _, p := range hercules.Registry.GetPlumbingItems() {
		feat := []string{}
		if f, ok := p.(core.FeaturedPipelineItem); ok {
			feat = f.Features()
		}
		fmt.Printf("  plumbing %s provides=%v requires=%v features=%v\n", p.Name(), p.Provides(), p.Requires(), feat)
	}
	featured := hercules.Registry.GetFeaturedItems()
	var feats []string
	for f := range featured {
		feats = append(feats, f)
	}
	fmt.Println("features:", feats)
	n := len(leavesL)
	bad := 0
	devnull, _ := os.OpenFile(os.DevNull, os.O_WRONLY, 0)
	os.Stderr = devnull
	for mask := 1; mask < 1<<uint(n); mask++ {
		for _, withFeat := range []bool{false, true} {
			p := hercules.NewPipeline(repo)
			if withFeat {
				for _, f := range feats {
					p.SetFeature(f)
				}
			}
			fresh := hercules.Registry.GetLeaves()
			for i := 0; i < n; i++ {
				if mask&(1<<uint(i)) != 0 {
					p.DeployItem(fresh[i])
				}
			}
			var err error
			var pan interface{}
			func() {
				defer func() { pan = recover() }()
				err = p.Initialize(map[string]interface{}{core.ConfigPipelineDryRun: true, core.ConfigPipelineCommits: nil})
			}()
			if err != nil || pan != nil {
				bad++
				if withFeat && bad <= 400 {
					fmt.Println("mask", mask, "feat", withFeat, "err", err, "panic", pan)
				}
			}
		}
	}
	fmt.Println("subsets", (1<<uint(n))-1, "x2; bad", bad)
}
