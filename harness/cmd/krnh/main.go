// krnh: RenameAnalysis.Consume under load (C13): tens of added and deleted files of 0.3-1.5 KB (unrelated, look-alike,
// or moved with small edits), time budgets that end before, inside and after the similarity passes.  Go-side statement:
// the output is a re-pairing of the input (every deleted path once, every added path once, modifications untouched),
// exact duplicates are paired, no error, no panic, no deadlock (per-case watchdog).  The same binary built with the
// race detector (probe name krnh.race) turns every data race between the two matchers into a crash of the case.
package main

import (
	"fmt"
	"io/ioutil"
	"log"
	"math/rand"
	"sort"
	"strings"
	"time"

	"gopkg.in/src-d/go-git.v4"
	"gopkg.in/src-d/go-git.v4/plumbing"
	"gopkg.in/src-d/go-git.v4/plumbing/object"
	"gopkg.in/src-d/go-git.v4/storage/memory"
	"gopkg.in/src-d/go-git.v4/utils/merkletrie"
	items "gopkg.in/src-d/hercules.v10/internal/plumbing"
	"gopkg.in/src-d/hercules.v10/verifharness/hv"
)

func text(rng *rand.Rand, lines int, vocab int) []byte {
	var sb strings.Builder
	for i := 0; i < lines; i++ {
		fmt.Fprintf(&sb, "w%d w%d w%d w%d\n", rng.Intn(vocab), rng.Intn(vocab), rng.Intn(vocab), rng.Intn(vocab))
	}
	return []byte(sb.String())
}

func main() {
	log.SetOutput(ioutil.Discard)
	repo, _ := git.Init(memory.NewStorage(), nil)
	hv.RunOracle(func(cs int64, extra []string) (string, string, string, []string) {
		rng := rand.New(rand.NewSource(cs))
		maxFiles := 70
		if len(extra) > 0 && extra[0] == "light" {
			maxFiles = 25 // the race-detector build is ~10x slower
		}
		nDel, nAdd := 5+rng.Intn(maxFiles), 5+rng.Intn(maxFiles)
		shape := []string{"unrelated", "moved", "lookalike"}[rng.Intn(3)]
		if rng.Intn(30) == 0 && maxFiles > 30 {
			// more than 1000 leftover files: the candidate lists are cut to one entry
			shape = "huge"
			nDel, nAdd = 520+rng.Intn(100), 520+rng.Intn(100)
		} else if rng.Intn(15) == 0 && maxFiles > 30 {
			// more than 50 size-close candidates per file
			shape = "crowd"
			nDel, nAdd = 60+rng.Intn(30), 60+rng.Intn(30)
		}
		timeouts := []time.Duration{1, 200 * time.Microsecond, time.Millisecond, 5 * time.Millisecond, 25 * time.Millisecond, 0}
		timeout := timeouts[rng.Intn(len(timeouts))]
		ra := &items.RenameAnalysis{SimilarityThreshold: []int{30, 50, 80, 95}[rng.Intn(4)], Timeout: timeout}
		ra.Initialize(repo)
		desc := fmt.Sprintf(`{"seed":%d,"shape":%q,"deleted":%d,"added":%d,"timeout_ns":%d,"threshold":%d}`, cs, shape, nDel, nAdd, int64(timeout), ra.SimilarityThreshold)
		cache := map[plumbing.Hash]*items.CachedBlob{}
		mk := func(data []byte) plumbing.Hash {
			h := plumbing.ComputeHash(plumbing.BlobObject, data)
			cb := &items.CachedBlob{Data: data}
			cb.Size = int64(len(data))
			cb.Hash = h
			cache[h] = cb
			return h
		}
		// base names whose common prefix and common suffix overlap, names that contain each other, one-letter names: the
		// candidates of a deleted file are ordered by the edit distance of the base names
		tricky := []string{"index.js", "index.min.js", "foo.go", "fooo.go", "test.py", "test_test.py", "a", "aa", "aaa", "ab.ab", "ab.ab.ab", "x.c", "x.x.c", "b", "go.go.go"}
		trickyNames := rng.Intn(3) == 0
		shift := rng.Intn(5)
		var changes object.Changes
		var delNames, addNames, modNames []string
		delH, addH := map[plumbing.Hash]int{}, map[plumbing.Hash]int{}
		var base [][]byte
		for i := 0; i < nDel; i++ {
			var data []byte
			if shape == "lookalike" {
				data = text(rng, 20+rng.Intn(10), 6)
			} else if shape == "huge" || shape == "crowd" {
				data = text(rng, 4, 5)
			} else {
				data = text(rng, 15+rng.Intn(40), 400)
			}
			base = append(base, data)
			name := fmt.Sprintf("old/pkg/file_%03d.go", i)
			if trickyNames && i < len(tricky) {
				name = "old/pkg/" + tricky[i]
			}
			h := mk(data)
			changes = append(changes, &object.Change{From: object.ChangeEntry{Name: name, TreeEntry: object.TreeEntry{Name: name, Hash: h}}})
			delNames = append(delNames, name)
			delH[h]++
		}
		for i := 0; i < nAdd; i++ {
			var data []byte
			switch {
			case shape == "moved" && i < nDel:
				data = append([]byte{}, base[i]...)
				if rng.Intn(3) > 0 { // a small edit
					data = append(data, []byte(fmt.Sprintf("edit %d\n", rng.Intn(9)))...)
				}
			case shape == "lookalike":
				data = text(rng, 20+rng.Intn(10), 6)
			case shape == "huge" || shape == "crowd":
				data = text(rng, 4, 5)
			default:
				data = text(rng, 15+rng.Intn(40), 400)
			}
			name := fmt.Sprintf("new/pkg/file_%03d.go", i)
			if trickyNames && i < len(tricky) {
				name = "new/pkg/" + tricky[(i+1+shift)%len(tricky)]
			}
			h := mk(data)
			changes = append(changes, &object.Change{To: object.ChangeEntry{Name: name, TreeEntry: object.TreeEntry{Name: name, Hash: h}}})
			addNames = append(addNames, name)
			addH[h]++
		}
		for i := 0; i < rng.Intn(4); i++ {
			name := fmt.Sprintf("keep/m%d.go", i)
			h1, h2 := mk(text(rng, 5, 50)), mk(text(rng, 6, 50))
			changes = append(changes, &object.Change{From: object.ChangeEntry{Name: name, TreeEntry: object.TreeEntry{Name: name, Hash: h1}},
				To: object.ChangeEntry{Name: name, TreeEntry: object.TreeEntry{Name: name, Hash: h2}}})
			modNames = append(modNames, name)
		}
		rng.Shuffle(len(changes), func(i, j int) { changes[i], changes[j] = changes[j], changes[i] })
		type outcome struct {
			res map[string]interface{}
			err error
			pan string
		}
		ch := make(chan outcome, 1)
		go func() {
			var o outcome
			defer func() {
				if r := recover(); r != nil {
					o.pan = fmt.Sprint(r)
				}
				ch <- o
			}()
			o.res, o.err = ra.Consume(map[string]interface{}{items.DependencyTreeChanges: changes, items.DependencyBlobCache: cache})
		}()
		var o outcome
		select {
		case o = <-ch:
		case <-time.After(120 * time.Second):
			return desc, "rename-load", "Consume did not return within 120 s (deadlock?)", []string{shape}
		}
		tags := []string{shape, fmt.Sprintf("timeout_%s", timeout)}
		if o.pan != "" {
			return desc, "rename-load", "Consume panicked: " + o.pan, tags
		}
		if o.err != nil {
			return desc, "rename-load", "Consume failed: " + o.err.Error(), tags
		}
		var gotDel, gotAdd, gotMod []string
		exact := map[plumbing.Hash]int{}
		for _, c := range o.res[items.DependencyTreeChanges].(object.Changes) {
			a, _ := c.Action()
			switch a {
			case merkletrie.Insert:
				gotAdd = append(gotAdd, c.To.Name)
			case merkletrie.Delete:
				gotDel = append(gotDel, c.From.Name)
			case merkletrie.Modify:
				if c.From.Name == c.To.Name {
					gotMod = append(gotMod, c.From.Name)
				} else {
					gotDel = append(gotDel, c.From.Name)
					gotAdd = append(gotAdd, c.To.Name)
					if c.From.TreeEntry.Hash == c.To.TreeEntry.Hash {
						exact[c.From.TreeEntry.Hash]++
					}
				}
			}
		}
		for _, p := range [][2][]string{{delNames, gotDel}, {addNames, gotAdd}, {modNames, gotMod}} {
			a, b := append([]string{}, p[0]...), append([]string{}, p[1]...)
			sort.Strings(a)
			sort.Strings(b)
			if fmt.Sprint(a) != fmt.Sprint(b) {
				return desc, "rename-load", fmt.Sprintf("not a re-pairing of the input: %d paths expected, %d reported (first lists differ)", len(a), len(b)), tags
			}
		}
		for h, nd := range delH {
			want := nd
			if addH[h] < want {
				want = addH[h]
			}
			if exact[h] != want {
				return desc, "rename-load", fmt.Sprintf("content %s is deleted %d times and added %d times but %d exact renames are reported", h.String()[:8], nd, addH[h], exact[h]), tags
			}
		}
		return desc, "rename-load", "", tags
	})
}
