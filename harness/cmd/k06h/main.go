package main

import (
	"bufio"
	"fmt"
	"gopkg.in/src-d/hercules.v10/verifharness/hv"
	"io/ioutil"
	"math/rand"
	"os"
	"sort"
	"strconv"
	"strings"

	"gopkg.in/src-d/hercules.v10/internal/rbtree"
)

func ul(l []uint32) string {
	var ss []string
	for _, x := range l {
		ss = append(ss, strconv.Itoa(int(x)))
	}
	return strings.Join(ss, ",")
}

func state(a *rbtree.Allocator) string {
	stNil, gNil, hl, hg, data, dNil := a.VerifHibState()
	st := "nil"
	gp := "nil"
	nodes, gaps := a.VerifSnapshot()
	if !stNil {
		var ns []string
		for _, n := range nodes {
			b := 0
			if n.Black {
				b = 1
			}
			ns = append(ns, fmt.Sprintf("%d,%d,%d,%d,%d,%d", n.Key, n.Value, n.Left, n.Parent, n.Right, b))
		}
		st = "[" + strings.Join(ns, ";") + "]"
	}
	if !gNil {
		var gs []uint32
		for k := range gaps {
			gs = append(gs, k)
		}
		sort.Slice(gs, func(i, j int) bool { return gs[i] < gs[j] })
		gp = "[" + ul(gs) + "]"
	}
	var ds []string
	for i := range data {
		if dNil[i] {
			ds = append(ds, "nil")
		} else {
			ds = append(ds, "["+ul(data[i])+"]")
		}
	}
	return fmt.Sprintf("st=%s gaps=%s hl=%d hg=%d data=%s", st, gp, hl, hg, strings.Join(ds, " "))
}

func main() {
	seed, _ := strconv.ParseInt(os.Args[1], 10, 64)
	count, _ := strconv.Atoi(os.Args[2])
	ops, _ := os.Create(os.Args[3])
	impl, _ := os.Create(os.Args[4])
	wo, wi := bufio.NewWriter(ops), bufio.NewWriter(impl)
	defer wo.Flush()
	defer wi.Flush()
	dir, _ := ioutil.TempDir("", "k06h")
	defer os.RemoveAll(dir)
	path := dir + "/arena"
	kinds := map[string]int{}
	// the LZ4 binding the hibernation relies on (assumed lossless by the model): round trip of columns of every
	// compressibility and size, including incompressible ones far beyond the sizes of the arenas below
	// every length up to 1100 words once, incompressible and with a compressible head: the length of the final literal
	// run decides how its length bytes are written (15, 15+255, 15+2*255 ... are the boundaries)
	for n := 1; n <= 1100; n++ {
		rng := rand.New(rand.NewSource(seed*77 + int64(n)))
		for variant := 0; variant < 2; variant++ {
			data := make([]uint32, n)
			for i := range data {
				if variant == 1 && i < n/3 {
					data[i] = 7
				} else {
					data[i] = rng.Uint32()
				}
			}
			kinds["lz4_columns_length_sweep"]++
			func() {
				desc := fmt.Sprintf(`{"lz4_sweep_seed":%d,"words":%d,"compressible_head":%v}`, seed*77+int64(n), n, variant == 1)
				defer func() {
					if r := recover(); r != nil {
						hv.Fail("lz4-roundtrip", desc, fmt.Sprintf("panic: %v", r))
					}
				}()
				packed := rbtree.CompressUInt32Slice(data)
				back := make([]uint32, n)
				rbtree.DecompressUInt32Slice(packed, back)
				for i := range data {
					if back[i] != data[i] {
						hv.Fail("lz4-roundtrip", desc, fmt.Sprintf("word %d of %d reads back as %d, written %d", i, n, back[i], data[i]))
						return
					}
				}
			}()
		}
	}
	for it := 0; it < count; it += 25 {
		rng := rand.New(rand.NewSource(seed*31 + int64(it)))
		n := 1 + rng.Intn(60000)
		if rng.Intn(2) == 0 {
			n = 1 + rng.Intn(3000)
		}
		data := make([]uint32, n)
		switch rng.Intn(4) {
		case 0: // incompressible
			for i := range data {
				data[i] = rng.Uint32()
			}
		case 1: // small values, like node keys
			for i := range data {
				data[i] = uint32(rng.Intn(50))
			}
		case 2: // runs
			v := rng.Uint32()
			for i := range data {
				if rng.Intn(40) == 0 {
					v = rng.Uint32()
				}
				data[i] = v
			}
		default: // mixed
			for i := range data {
				if rng.Intn(3) == 0 {
					data[i] = rng.Uint32()
				}
			}
		}
		kinds["lz4_columns"]++
		func() {
			defer func() {
				if r := recover(); r != nil {
					hv.Fail("lz4-roundtrip", fmt.Sprintf(`{"lz4_seed":%d,"words":%d}`, seed*31+int64(it), n), fmt.Sprintf("panic: %v", r))
				}
			}()
			packed := rbtree.CompressUInt32Slice(data)
			if len(packed) == 0 {
				hv.Fail("lz4-roundtrip", fmt.Sprintf(`{"lz4_seed":%d,"words":%d}`, seed*31+int64(it), n), "a non-empty column was compressed to nothing")
				return
			}
			back := make([]uint32, n)
			rbtree.DecompressUInt32Slice(packed, back)
			for i := range data {
				if back[i] != data[i] {
					hv.Fail("lz4-roundtrip", fmt.Sprintf(`{"lz4_seed":%d,"words":%d}`, seed*31+int64(it), n), fmt.Sprintf("word %d reads back as %d, written %d", i, back[i], data[i]))
					return
				}
			}
		}()
	}
	for it := 0; it < count; it++ {
		rng := rand.New(rand.NewSource(seed + int64(it)))
		a := rbtree.NewAllocator()
		a.HibernationThreshold = rng.Intn(12)
		t1, t2 := rbtree.NewRBTree(a), rbtree.NewRBTree(a)
		haveFile := false
		stale := false // the arena was read back from a file that may be older than the trees' headers
		fmt.Fprintln(wo, "new")
		fmt.Fprintln(wi, "ok")
		for round := 0; round < 4; round++ {
			stNil, _, _, _, _, _ := a.VerifHibState()
			if !stNil {
				if stale {
					// this probe is about the raw arena: after a read-back the old tree headers may not match the
					// restored storage any more, so content is added through fresh trees
					t1, t2 = rbtree.NewRBTree(a), rbtree.NewRBTree(a)
					stale = false
				}
				for k := rng.Intn(25); k > 0; k-- {
					t := t1
					if rng.Intn(2) == 0 {
						t = t2
					}
					if rng.Intn(3) > 0 {
						t.Insert(rbtree.Item{Key: uint32(rng.Intn(30)), Value: uint32(rng.Intn(1000))})
					} else {
						t.DeleteWithKey(uint32(rng.Intn(30)))
					}
				}
				nodes, gaps := a.VerifSnapshot()
				var ns []string
				for _, n := range nodes {
					b := 0
					if n.Black {
						b = 1
					}
					ns = append(ns, fmt.Sprintf("%d,%d,%d,%d,%d,%d", n.Key, n.Value, n.Left, n.Parent, n.Right, b))
				}
				var gs []uint32
				for k := range gaps {
					gs = append(gs, k)
				}
				sort.Slice(gs, func(i, j int) bool { return gs[i] < gs[j] })
				sn, sg := strings.Join(ns, ";"), ul(gs)
				if sn == "" {
					sn = "-"
				}
				if sg == "" {
					sg = "-"
				}
				fmt.Fprintf(wo, "load %d %s %s\n", a.HibernationThreshold, sn, sg)
				fmt.Fprintln(wi, state(a))
			}
			if st0, _, _, _, _, _ := a.VerifHibState(); st0 && rng.Intn(3) == 0 {
				// use of a hibernated allocator must be refused (panic) and must leave the hibernated state untouched
				before := state(a)
				what := []string{"Used()", "Clone()", "Insert into a tree", "DeleteWithKey on a tree"}[rng.Intn(4)]
				refused := false
				func() {
					defer func() {
						if recover() != nil {
							refused = true
						}
					}()
					switch what {
					case "Used()":
						a.Used()
					case "Clone()":
						a.Clone()
					case "Insert into a tree":
						t1.Insert(rbtree.Item{Key: uint32(1000 + rng.Intn(30)), Value: 1})
					default:
						if !t1.DeleteWithKey(uint32(rng.Intn(30))) {
							refused = true // nothing to delete: no allocator access was needed
						}
					}
				}()
				kinds["use_while_hibernated"]++
				if !refused {
					hv.Fail("use-while-hibernated", fmt.Sprintf(`{"seed":%d,"case":%d,"use":%q}`, seed, it, what), what+" on a hibernated allocator was not refused")
				} else if state(a) != before {
					hv.Fail("use-while-hibernated", fmt.Sprintf(`{"seed":%d,"case":%d,"use":%q}`, seed, it, what), what+" on a hibernated allocator was refused but changed its state")
				}
			}
			for k := 1 + rng.Intn(4); k > 0; k-- {
				op := []string{"hib", "boot", "ser", "deser", "hib", "boot"}[rng.Intn(6)]
				if op == "deser" && !haveFile {
					continue
				}
				if op == "ser" {
					// writing out an allocator whose buffers were already written (nil) produces a file of
					// empty buffers; booting from it crashes inside a goroutine (not recoverable) - not generated
					stNil, _, _, _, _, dNil := a.VerifHibState()
					if stNil && dNil[0] {
						continue
					}
				}
				fmt.Fprintln(wo, op)
				func() {
					defer func() {
						if r := recover(); r != nil {
							kinds["panic"]++
							fmt.Fprintf(wi, "panic %v\n", r)
						}
					}()
					var err error
					switch op {
					case "hib":
						a.Hibernate()
					case "boot":
						a.Boot()
					case "ser":
						err = a.Serialize(path)
						if err == nil {
							haveFile = true
						}
					case "deser":
						err = a.Deserialize(path)
						stale = true
					}
					if err != nil {
						fmt.Fprintf(wi, "err %v\n", err)
						return
					}
					kinds[op]++
					fmt.Fprintln(wi, state(a))
				}()
			}
		}
	}
	hv.Stats(kinds)
}
