package main

import (
	"fmt"
	"github.com/src-d/enry/v2"
	"gopkg.in/src-d/hercules.v10/verifharness/hv"
	"io/ioutil"
	"log"
	"math/rand"
	"path"
	"regexp"
	"sort"
	"strings"
	"time"

	"gopkg.in/src-d/go-git.v4"
	"gopkg.in/src-d/go-git.v4/plumbing"
	"gopkg.in/src-d/go-git.v4/plumbing/filemode"
	"gopkg.in/src-d/go-git.v4/plumbing/object"
	"gopkg.in/src-d/go-git.v4/storage/memory"
	"gopkg.in/src-d/go-git.v4/utils/merkletrie"
	"gopkg.in/src-d/hercules.v10/internal/core"
	items "gopkg.in/src-d/hercules.v10/internal/plumbing"
)

type fent struct {
	data []byte
	mode filemode.FileMode
	sub  bool
}

func put(st *memory.Storage, t plumbing.ObjectType, enc func(o plumbing.EncodedObject) error) plumbing.Hash {
	o := st.NewEncodedObject()
	o.SetType(t)
	enc(o)
	hh, _ := st.SetEncodedObject(o)
	return hh
}

// bytes of every blob ever stored
var contentOf = map[plumbing.Hash]string{}

// build nested tree from path->fent
func buildTree(st *memory.Storage, files map[string]fent, prefix string) plumbing.Hash {
	names := map[string]bool{}
	for p := range files {
		if strings.HasPrefix(p, prefix) {
			rest := p[len(prefix):]
			names[strings.SplitN(rest, "/", 2)[0]] = true
		}
	}
	var ns []string
	for n := range names {
		ns = append(ns, n)
	}
	// git sorts trees with dirs as name+"/"
	isDir := func(n string) bool { _, ok := files[prefix+n]; return !ok }
	sort.Slice(ns, func(i, j int) bool {
		a, b := ns[i], ns[j]
		if isDir(a) {
			a += "/"
		}
		if isDir(b) {
			b += "/"
		}
		return a < b
	})
	var entries []object.TreeEntry
	for _, n := range ns {
		if f, ok := files[prefix+n]; ok {
			if f.sub {
				var h plumbing.Hash
				copy(h[:], f.data)
				entries = append(entries, object.TreeEntry{Name: n, Mode: filemode.Submodule, Hash: h})
			} else {
				bh := put(st, plumbing.BlobObject, func(o plumbing.EncodedObject) error {
					w, _ := o.Writer()
					w.Write(f.data)
					return w.Close()
				})
				contentOf[bh] = string(f.data)
				entries = append(entries, object.TreeEntry{Name: n, Mode: f.mode, Hash: bh})
			}
		} else {
			entries = append(entries, object.TreeEntry{Name: n, Mode: filemode.Dir, Hash: buildTree(st, files, prefix+n+"/")})
		}
	}
	return put(st, plumbing.TreeObject, (&object.Tree{Entries: entries}).Encode)
}

var prevTD *items.TreeDiff
var prevBC *items.BlobCache

// set by runOne: decidable classes of the known findings D10 / D15
var langFlip, sub0 bool

func runOne(seed int64, mode string) (msg string) {
	langFlip, sub0 = false, false
	passing := map[string]map[bool]bool{}
	defer func() {
		if r := recover(); r != nil {
			msg = fmt.Sprintf("PANIC %v", r)
		}
	}()
	rng := rand.New(rand.NewSource(seed))
	st := memory.NewStorage()
	repo, _ := git.Init(st, nil)
	paths := []string{"a.go", "b.py", "vendor/x.go", "dir/c.go", "dir/sub/d.txt", "dir/e.h", "f.h", "sm", "dir/sm2", "g.txt", "dir/sm3", "lib/sm",
		"vendorx.go", "vendor.md"} // the last two share the text of a blacklisted prefix without lying under that directory
	// submodule paths; with FailOnMissingSubmodules, sm and dir/sm3 are listed in .gitmodules, dir/sm2 and lib/sm are not
	// (lib/sm has the base name of a listed one)
	isSub := map[string]bool{"sm": true, "dir/sm2": true, "dir/sm3": true, "lib/sm": true}
	unlisted := map[string]bool{"dir/sm2": true, "lib/sm": true}
	contents := []string{"package main\n", "import os\n", "#include <stdio.h>\nint main(){}\n", "@interface Foo\n@end\n", "class A {};\n", "hello\n", "x\ny\n", ""}
	files := map[string]fent{}
	td := &items.TreeDiff{}
	bc := &items.BlobCache{}
	if prevTD != nil && rng.Intn(3) == 0 {
		// objects that have already analysed another repository: Initialize starts them from scratch
		td, bc = prevTD, prevBC
		td.SkipFiles, td.NameFilter, td.Languages = nil, nil, nil
		bc.FailOnMissingSubmodules = false
	}
	prevTD, prevBC = td, bc
	switch mode {
	case "prefix":
		td.SkipFiles = []string{"vendor/", "dir/sub"}
		if rng.Intn(2) == 0 {
			// the same blacklist given the way the command line gives it: through Configure; the prefixes are taken literally
			td.SkipFiles = nil
			td.Configure(map[string]interface{}{items.ConfigTreeDiffEnableBlacklist: true,
				items.ConfigTreeDiffBlacklistedPrefixes: []string{"vendor/", "dir/sub"}})
		}
	case "regex":
		// also patterns that match the empty name of the absent side of an insertion/deletion (defect D17)
		td.NameFilter = regexp.MustCompile([]string{`\.(go|h)$`, `\.(go|h)$`, `^(a\.go)?$`, `^$`, `^(dir/.*)?$`}[rng.Intn(5)])
	case "lang", "lang-sub0":
		td.Languages = map[string]bool{"c": true, "go": true}
		if rng.Intn(2) == 0 {
			// the same selection made through Configure, on an object that was configured differently before: the last
			// configuration is the one in force
			td.Languages = nil
			first := [][]string{{"all"}, {"python"}, {"python", "c"}}[rng.Intn(3)]
			td.Configure(map[string]interface{}{items.ConfigTreeDiffLanguages: first})
			td.Configure(map[string]interface{}{items.ConfigTreeDiffLanguages: []string{" C", "go "}})
		}
	}
	// FailOnMissingSubmodules: a submodule entry is a placeholder only if .gitmodules lists it; an unlisted one is an error
	strict := mode == "none" && rng.Intn(4) == 0
	if strict {
		bc.FailOnMissingSubmodules = true
		files[".gitmodules"] = fent{data: []byte("[submodule \"sm\"]\n\tpath = sm\n\turl = https://example.com/sm\n" +
			"[submodule \"dir/sm3\"]\n\tpath = dir/sm3\n\turl = https://example.com/sm3\n"), mode: filemode.Regular}
	}
	td.Initialize(repo)
	bc.Initialize(repo)
	base := time.Date(2020, 1, 1, 0, 0, 0, 0, time.UTC)
	var prev plumbing.Hash
	subSeen := false
	everFaulted := false
	seenSet := map[string]string{} // downstream view: path -> hash
	for c := 0; c < 8; c++ {
		for k := 0; k < 1+rng.Intn(4); k++ {
			p := paths[rng.Intn(len(paths))]
			switch rng.Intn(6) {
			case 0:
				delete(files, p)
			case 1:
				if f, ok := files[p]; ok && !f.sub {
					if f.mode == filemode.Regular {
						f.mode = filemode.Executable
					} else {
						f.mode = filemode.Regular
					}
					files[p] = f
				}
			default:
				if isSub[p] && (c > 0 || strings.HasSuffix(mode, "sub0")) {
					h := make([]byte, 20)
					rng.Read(h)
					files[p] = fent{data: h, sub: true}
				} else {
					files[p] = fent{data: []byte(contents[rng.Intn(len(contents))]), mode: filemode.Regular}
					lang := strings.ToLower(enry.GetLanguage(p, files[p].data))
					if passing[p] == nil {
						passing[p] = map[bool]bool{}
					}
					passing[p][lang == "c" || lang == "go"] = true
					if len(passing[p]) == 2 {
						langFlip = true // the path has one version that passes the language filter and one that does not
					}
				}
			}
		}
		if c == 0 {
			for _, f := range files {
				if f.sub {
					sub0 = true // submodule entry in the first commit of the branch
				}
			}
		}
		th := buildTree(st, files, "")
		sig := object.Signature{Name: "a", Email: "a@x", When: base.Add(time.Duration(c) * time.Hour)}
		cm := &object.Commit{Author: sig, Committer: sig, Message: fmt.Sprint(c), TreeHash: th}
		if c > 0 {
			cm.ParentHashes = []plumbing.Hash{prev}
		}
		prev = put(st, plumbing.CommitObject, cm.Encode)
		commit, _ := repo.CommitObject(prev)
		deps := map[string]interface{}{core.DependencyCommit: commit, core.DependencyIndex: c, core.DependencyIsMerge: false}
		r1, err := td.Consume(deps)
		if err != nil {
			return "treediff err " + err.Error()
		}
		changes := r1[items.DependencyTreeChanges].(object.Changes)
		deps[items.DependencyTreeChanges] = changes
		// fault: the old version of a changed file is still in the object store but cannot be read completely (its
		// declared size is one byte more than its content)
		faulted := false
		if mode == "none" && !strict && !everFaulted && rng.Intn(6) == 0 {
			for _, ch := range changes {
				if h := ch.From.TreeEntry.Hash; ch.From.Name != "" && ch.From.TreeEntry.Mode != filemode.Submodule && !faulted {
					if o, ok := st.Blobs[h]; ok {
						if want, known := contentOf[h]; known && o.Size() == int64(len(want)) {
							o.SetSize(o.Size() + 1)
							faulted, everFaulted = true, true
						}
					}
				}
			}
		}
		r2, err := bc.Consume(deps)
		if everFaulted && err != nil {
			return "" // refused (now, or later when the unreadable blob is needed again): the run stops here, as Pipeline.Run would
		}
		_ = faulted
		if strict {
			mustErr, mayErr := false, false
			for _, ch := range changes {
				if unlisted[ch.To.Name] && ch.To.TreeEntry.Mode == filemode.Submodule {
					mustErr, mayErr = true, true
				}
				if unlisted[ch.From.Name] && ch.From.TreeEntry.Mode == filemode.Submodule {
					mayErr = true
				}
			}
			if err != nil {
				if !mayErr {
					return "blobcache err without an unlisted submodule: " + err.Error()
				}
				return "" // refused as configured: the run stops here
			}
			if mustErr {
				return fmt.Sprintf("c%d: a submodule that is not listed in .gitmodules (dir/sm2 or lib/sm) was added, FailOnMissingSubmodules is set, and BlobCache accepted it", c)
			}
		}
		if err != nil {
			return "blobcache err " + err.Error()
		}
		cache := r2[items.DependencyBlobCache].(map[plumbing.Hash]*items.CachedBlob)
		// apply
		for _, ch := range changes {
			a, _ := ch.Action()
			switch a {
			case merkletrie.Insert:
				if _, ok := seenSet[ch.To.Name]; ok {
					return fmt.Sprintf("c%d insert of existing %s", c, ch.To.Name)
				}
				seenSet[ch.To.Name] = ch.To.TreeEntry.Hash.String()
			case merkletrie.Delete:
				if seenSet[ch.From.Name] != ch.From.TreeEntry.Hash.String() {
					return fmt.Sprintf("c%d delete of unknown/mismatched %s", c, ch.From.Name)
				}
				delete(seenSet, ch.From.Name)
			case merkletrie.Modify:
				if seenSet[ch.From.Name] != ch.From.TreeEntry.Hash.String() {
					return fmt.Sprintf("c%d modify of unknown/mismatched %s", c, ch.From.Name)
				}
				delete(seenSet, ch.From.Name)
				seenSet[ch.To.Name] = ch.To.TreeEntry.Hash.String()
			}
			for _, e := range []object.ChangeEntry{ch.From, ch.To} {
				if e.Name == "" {
					continue
				}
				cb, ok := cache[e.TreeEntry.Hash]
				if !ok || cb == nil {
					return fmt.Sprintf("c%d blob for %s missing in cache", c, e.Name)
				}
				if f, ok := files[e.Name]; ok && e == ch.To && !f.sub && string(cb.Data) != string(f.data) {
					return fmt.Sprintf("c%d blob bytes differ for %s", c, e.Name)
				}
				// a successful Consume hands over the real bytes of every blob that is in the object store, old side included
				if want, known := contentOf[e.TreeEntry.Hash]; known && e.TreeEntry.Mode != filemode.Submodule && string(cb.Data) != want {
					if _, inStore := st.Blobs[e.TreeEntry.Hash]; inStore {
						return fmt.Sprintf("c%d BlobCache succeeded but hands over %d bytes for %s (%s side), the blob has %d", c, len(cb.Data), e.Name,
							map[bool]string{true: "new", false: "old"}[e == ch.To], len(want))
					}
				}
			}
		}
		// expected current filtered set
		want := map[string]string{}
		tree, _ := commit.Tree()
		walker := object.NewTreeWalker(tree, true, nil)
		for {
			name, entry, err := walker.Next()
			if err != nil {
				break
			}
			if entry.Mode == filemode.Dir {
				continue
			}
			pass := true
			switch mode {
			case "prefix":
				// the prefixes as configured (not as the item stored them)
				for _, pre := range []string{"vendor/", "dir/sub"} {
					if strings.HasPrefix(name, pre) {
						pass = false
					}
				}
				if strings.HasPrefix(name, "vendor/") {
					pass = false
				}
			case "regex":
				pass = td.NameFilter.MatchString(name)
			case "lang", "lang-sub0":
				if f := files[name]; f.sub {
					subSeen = true
				} else {
					head := f.data
					if len(head) > 1024 {
						head = head[:1024]
					}
					l := strings.ToLower(enry.GetLanguage(path.Base(name), head))
					pass = l == "c" || l == "go"
				}
			}
			if pass {
				want[name] = entry.Hash.String()
			}
		}
		walker.Close()
		if strings.HasPrefix(mode, "lang") {
			// the language selection (C and Go) decides by the content a path has now; paths with one passing and one
			// failing version are the known finding D10, and submodule entries have no content to look at
			if !langFlip && !subSeen && fmt.Sprint(want) != fmt.Sprint(seenSet) {
				return fmt.Sprintf("c%d SET mismatch under the language selection {c, go}: want %v got %v", c, want, seenSet)
			}
		} else {
			// submodules are not listed on the first commit (Files() iterator) - note it
			if fmt.Sprint(want) != fmt.Sprint(seenSet) {
				return fmt.Sprintf("c%d SET mismatch want %v got %v", c, want, seenSet)
			}
		}
	}
	return ""
}

func main() {
	log.SetOutput(ioutil.Discard)
	hv.RunOracle(func(cs int64, extra []string) (string, string, string, []string) {
		mode := extra[0]
		m := runOne(cs, mode)
		class := "treediff-" + mode
		if m != "" && strings.HasPrefix(mode, "lang") && langFlip {
			class = "language-flip"
		} else if m != "" && sub0 && strings.HasSuffix(mode, "sub0") {
			class = "submodule-in-first-commit"
		}
		return fmt.Sprintf(`{"seed":%d,"mode":%q}`, cs, mode), class, m, nil
	})
}
