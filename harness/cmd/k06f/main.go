// k06f: the byte-level file format of Allocator.Serialize / Deserialize against the Lean model HbF (C06, C09),
// with fault enumeration over truncation points: the file is cut at every offset (all offsets for files up to
// 400 bytes, otherwise every section boundary +-1 and 80 random offsets) and read back.
// ops: file <hibLen> <gapsLen> <hex buffer|-> x7   -> impl: hex of the file written by the real Serialize
//
//	trunc <n>                                   -> impl: err | ok
//
// oracle: a truncated file must be refused; the complete file must restore exactly the hibernated allocator.
package main

import (
	"encoding/hex"
	"encoding/json"
	"fmt"
	"io/ioutil"
	"math/rand"
	"os"
	"path/filepath"
	"sort"

	"gopkg.in/src-d/hercules.v10/internal/rbtree"
	"gopkg.in/src-d/hercules.v10/verifharness/hv"
)

func hx(b []byte) string {
	if len(b) == 0 {
		return "-"
	}
	return hex.EncodeToString(b)
}

func main() {
	seed, count, wo, wi, _, done := hv.Args()
	defer done()
	rng := rand.New(rand.NewSource(seed))
	dir, _ := ioutil.TempDir("", "hvk06f")
	defer os.RemoveAll(dir)
	stats := map[string]int{}
	for it := 0; it < count; it++ {
		alloc := rbtree.NewAllocator()
		t := rbtree.NewRBTree(alloc)
		n := 1 + rng.Intn(60)
		for i := 0; i < n; i++ {
			t.Insert(rbtree.Item{Key: uint32(rng.Intn(200)), Value: uint32(rng.Intn(1 << 20))})
		}
		dels := 0
		if rng.Intn(3) > 0 {
			dels = rng.Intn(n)
		}
		for i := 0; i < dels; i++ {
			t.DeleteWithKey(uint32(rng.Intn(200)))
		}
		if alloc.Size() == 0 {
			continue
		}
		before, gapsBefore := alloc.VerifSnapshot()
		desc, _ := json.Marshal(map[string]interface{}{"seed": seed, "case": it, "inserts": n, "deletes": dels})
		alloc.Hibernate()
		raw := alloc.VerifHibRaw()
		_, _, hibLen, gapsLen, _, _ := alloc.VerifHibState()
		path := filepath.Join(dir, "a.bin")
		if err := alloc.Serialize(path); err != nil {
			hv.Fail("serialize", string(desc), err.Error())
			continue
		}
		data, _ := ioutil.ReadFile(path)
		line := fmt.Sprintf("file %d %d", hibLen, gapsLen)
		for _, b := range raw {
			line += " " + hx(b)
		}
		fmt.Fprintln(wo, line)
		fmt.Fprintln(wi, hx(data))
		stats["files"]++
		// truncation points
		cuts := map[int]bool{}
		if len(data) <= 400 {
			for k := 0; k < len(data); k++ {
				cuts[k] = true
			}
		} else {
			// section boundaries: recompute offsets from the known buffer lengths
			off := 0
			mark := func() {
				for _, d := range []int{-1, 0, 1} {
					if off+d >= 0 && off+d < len(data) {
						cuts[off+d] = true
					}
				}
			}
			vlen := func(x int) int {
				l := 1
				for x >>= 7; x != 0; x >>= 7 {
					x--
					l++
				}
				return l
			}
			off += vlen(hibLen)
			mark()
			off += vlen(gapsLen)
			mark()
			for _, b := range raw {
				off += vlen(len(b))
				mark()
				off += len(b)
				mark()
			}
			for k := 0; k < 80; k++ {
				cuts[rng.Intn(len(data))] = true
			}
		}
		var cl []int
		for k := range cuts {
			cl = append(cl, k)
		}
		sort.Ints(cl)
		tpath := filepath.Join(dir, "t.bin")
		for _, k := range cl {
			ioutil.WriteFile(tpath, data[:k], 0600)
			fmt.Fprintf(wo, "trunc %d\n", k)
			var err error
			func() {
				defer func() {
					if r := recover(); r != nil {
						err = fmt.Errorf("panic: %v", r)
					}
				}()
				err = alloc.Deserialize(tpath)
			}()
			stats["truncations"]++
			if err != nil {
				fmt.Fprintln(wi, "err")
			} else {
				fmt.Fprintln(wi, "ok")
				c, _ := json.Marshal(map[string]interface{}{"seed": seed, "case": it, "inserts": n, "deletes": dels, "file_len": len(data), "cut": k})
				hv.Fail("truncated-file-accepted", string(c), fmt.Sprintf("a hibernation file of %d bytes cut to %d bytes was read back without an error", len(data), k))
			}
		}
		// the complete file restores the allocator
		fmt.Fprintf(wo, "trunc %d\n", len(data))
		if err := alloc.Deserialize(path); err != nil {
			fmt.Fprintln(wi, "err")
			hv.Fail("roundtrip", string(desc), "complete file refused: "+err.Error())
			continue
		}
		fmt.Fprintln(wi, "ok")
		alloc.Boot()
		after, gapsAfter := alloc.VerifSnapshot()
		if fmt.Sprint(before) != fmt.Sprint(after) || fmt.Sprint(len(gapsBefore)) != fmt.Sprint(len(gapsAfter)) {
			hv.Fail("roundtrip", string(desc), "allocator differs after Serialize/Deserialize/Boot")
		}
		for g := range gapsBefore {
			if !gapsAfter[g] {
				hv.Fail("roundtrip", string(desc), "free list differs after Serialize/Deserialize/Boot")
				break
			}
		}
	}
	hv.Stats(stats)
}
