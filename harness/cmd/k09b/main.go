// k09b: BurndownAnalysis.Hibernate/Boot through a file (C09), Go-side statement: with the file intact Boot succeeds,
// removes the file and the state equals that of a twin that never hibernated; with the file removed or cut to any
// shorter length Boot returns an error (it never continues on a damaged arena, it never crashes).
package main

import (
	"fmt"
	"io/ioutil"
	"math/rand"
	"os"
	"path/filepath"
	"reflect"
	"strings"
	"time"

	"gopkg.in/src-d/go-git.v4"
	"gopkg.in/src-d/go-git.v4/plumbing"
	"gopkg.in/src-d/go-git.v4/plumbing/object"
	"gopkg.in/src-d/go-git.v4/storage/memory"
	"gopkg.in/src-d/hercules.v10/internal/core"
	items "gopkg.in/src-d/hercules.v10/internal/plumbing"
	"gopkg.in/src-d/hercules.v10/internal/plumbing/identity"
	"gopkg.in/src-d/hercules.v10/leaves"
	"gopkg.in/src-d/hercules.v10/verifharness/hv"
)

func newAnalysis(dir string, threshold int, rng *rand.Rand, nfiles int, lens []int) (*leaves.BurndownAnalysis, error) {
	repo, _ := git.Init(memory.NewStorage(), nil)
	bd := &leaves.BurndownAnalysis{Granularity: 30, Sampling: 30, TickSize: 24 * time.Hour, TrackFiles: true,
		HibernationToDisk: dir != "", HibernationDirectory: dir, HibernationThreshold: threshold}
	if err := bd.Initialize(repo); err != nil {
		return nil, err
	}
	cache := map[plumbing.Hash]*items.CachedBlob{}
	var changes object.Changes
	for i := 0; i < nfiles; i++ {
		hash := plumbing.NewHash(fmt.Sprintf("%040x", 0xb10b00+i))
		data := []byte(strings.Repeat(fmt.Sprintf("line of file %d\n", i), lens[i]))
		blob := &items.CachedBlob{Data: data}
		blob.Hash = hash
		blob.Size = int64(len(data))
		cache[hash] = blob
		name := fmt.Sprintf("file%d.txt", i)
		changes = append(changes, &object.Change{To: object.ChangeEntry{Name: name,
			TreeEntry: object.TreeEntry{Name: name, Mode: 0100644, Hash: hash}}})
	}
	_, err := bd.Consume(map[string]interface{}{identity.DependencyAuthor: 0, items.DependencyTick: 0,
		core.DependencyIsMerge: false, items.DependencyBlobCache: cache, items.DependencyTreeChanges: changes,
		items.DependencyFileDiff: map[string]items.FileDiffData{}})
	return bd, err
}

func main() {
	root, _ := ioutil.TempDir("", "k09b")
	defer os.RemoveAll(root)
	hv.RunOracle(func(cs int64, extra []string) (string, string, string, []string) {
		rng := rand.New(rand.NewSource(cs))
		dir := filepath.Join(root, fmt.Sprint(cs))
		os.MkdirAll(dir, 0700)
		defer os.RemoveAll(dir)
		nfiles := 1 + rng.Intn(8)
		lens := make([]int, nfiles)
		for i := range lens {
			lens[i] = 1 + rng.Intn(30)
		}
		threshold := []int{0, 0, 3, 1000}[rng.Intn(4)]
		scenario := []string{"intact", "removed", "truncated", "truncated", "truncated", "unusable-directory"}[rng.Intn(6)]
		desc := fmt.Sprintf(`{"seed":%d,"files":%d,"lines":%q,"threshold":%d,"scenario":%q}`, cs, nfiles, fmt.Sprint(lens), threshold, scenario)
		if scenario == "unusable-directory" {
			// the configured directory does not exist (or is a file): Hibernate must return an error whenever it has to
			// write the arena, and must not invent another place
			bad := filepath.Join(dir, "missing", "sub")
			if rng.Intn(2) == 0 {
				bad = filepath.Join(dir, "a-file")
				ioutil.WriteFile(bad, []byte("x"), 0600)
			}
			bdx, err := newAnalysis(bad, threshold, rng, nfiles, lens)
			if err != nil {
				return desc, "disk-hibernation", "setup: " + err.Error(), nil
			}
			total := 0
			for _, n := range lens {
				total += n
			}
			herr := bdx.Hibernate()
			writes := threshold == 0 || threshold == 3 // every arena built here holds more than 3 nodes
			if writes && herr == nil {
				return desc, "disk-hibernation", "Hibernate succeeded although the hibernation directory is unusable", []string{scenario}
			}
			if !writes && herr != nil {
				return desc, "disk-hibernation", "Hibernate failed although nothing has to be written (below the threshold): " + herr.Error(), []string{scenario}
			}
			return desc, "disk-hibernation", "", []string{scenario}
		}
		bd, err := newAnalysis(dir, threshold, rng, nfiles, lens)
		if err != nil {
			return desc, "disk-hibernation", "setup: " + err.Error(), nil
		}
		twin, _ := newAnalysis("", threshold, rng, nfiles, lens)
		if err := bd.Hibernate(); err != nil {
			return desc, "disk-hibernation", "Hibernate: " + err.Error(), nil
		}
		entries, _ := ioutil.ReadDir(dir)
		if len(entries) == 0 {
			// the allocator did not hibernate (below the threshold): nothing is on disk, Boot must be a no-op
			if err := bd.Boot(); err != nil {
				return desc, "disk-hibernation", "Boot without a file: " + err.Error(), []string{"nothing_on_disk"}
			}
			f1, _, _, _ := leaves.VerifBurndownState(bd)
			f2, _, _, _ := leaves.VerifBurndownState(twin)
			if !reflect.DeepEqual(f1, f2) {
				return desc, "disk-hibernation", "state differs from the twin that never hibernated", []string{"nothing_on_disk"}
			}
			return desc, "disk-hibernation", "", []string{"nothing_on_disk"}
		}
		if len(entries) != 1 {
			return desc, "disk-hibernation", fmt.Sprintf("%d files in the hibernation directory", len(entries)), nil
		}
		path := filepath.Join(dir, entries[0].Name())
		size := entries[0].Size()
		switch scenario {
		case "removed":
			os.Remove(path)
		case "truncated":
			cut := int64(0)
			if size > 0 {
				cut = rng.Int63n(size)
			}
			if rng.Intn(3) == 0 && size > 0 {
				cut = size - 1 - rng.Int63n(min64(size, 4))
				if cut < 0 {
					cut = 0
				}
			}
			desc = fmt.Sprintf(`{"seed":%d,"files":%d,"lines":%q,"threshold":%d,"scenario":%q,"size":%d,"cut_to":%d}`, cs, nfiles, fmt.Sprint(lens), threshold, scenario, size, cut)
			os.Truncate(path, cut)
		}
		var bootErr error
		crashed := ""
		func() {
			defer func() {
				if r := recover(); r != nil {
					crashed = fmt.Sprint(r)
				}
			}()
			bootErr = bd.Boot()
		}()
		if crashed != "" {
			return desc, "disk-hibernation", "Boot panicked: " + crashed, []string{scenario}
		}
		if scenario == "intact" {
			if bootErr != nil {
				return desc, "disk-hibernation", "Boot of an intact file: " + bootErr.Error(), []string{scenario}
			}
			if left, _ := ioutil.ReadDir(dir); len(left) != 0 {
				return desc, "disk-hibernation", "the hibernation file is still there after Boot", []string{scenario}
			}
			f1, _, _, _ := leaves.VerifBurndownState(bd)
			f2, _, _, _ := leaves.VerifBurndownState(twin)
			if !reflect.DeepEqual(f1, f2) {
				return desc, "disk-hibernation", "state after the disk round trip differs from the twin that never hibernated", []string{scenario}
			}
			return desc, "disk-hibernation", "", []string{scenario}
		}
		if bootErr == nil {
			return desc, "disk-hibernation", "Boot returned no error although the hibernation file was " + scenario, []string{scenario}
		}
		return desc, "disk-hibernation", "", []string{scenario}
	})
}

func min64(a, b int64) int64 {
	if a < b {
		return a
	}
	return b
}
