// k12d: DevsAnalysis.Consume over replay sequences (C12) against the Lean model DevsC.run, plus a Go-side statement:
// total commits = number of counted replays (every replay of a commit with <= 1 parent, the first replay of a merge
// commit; commits that touch nothing only when empty commits are counted), per-language figures sum to the totals.
// ops: dc <considerEmpty> <hash:parents:author:tick:nchanges:mergeflag:lang=a/r/c|...> ...
package main

import (
	"fmt"
	"math/rand"
	"sort"
	"strings"
	"time"

	"gopkg.in/src-d/go-git.v4"
	"gopkg.in/src-d/go-git.v4/plumbing"
	"gopkg.in/src-d/go-git.v4/plumbing/object"
	"gopkg.in/src-d/go-git.v4/storage/memory"
	"gopkg.in/src-d/hercules.v10/internal/core"
	items "gopkg.in/src-d/hercules.v10/internal/plumbing"
	"gopkg.in/src-d/hercules.v10/internal/plumbing/identity"
	"gopkg.in/src-d/hercules.v10/leaves"
	"gopkg.in/src-d/hercules.v10/verifharness/hv"
)

func main() {
	seed, count, wo, wi, _, done := hv.Args()
	defer done()
	repo, _ := git.Init(memory.NewStorage(), nil)
	langsPool := []string{"Go", "Python", "", "C++"}
	stats := map[string]int{}
	var prevDA *leaves.DevsAnalysis
	for it := 0; it < count; it++ {
		rng := rand.New(rand.NewSource(seed*1000003 + int64(it)))
		ce := rng.Intn(2) == 0
		da := &leaves.DevsAnalysis{}
		if prevDA != nil && rng.Intn(3) == 0 {
			// a second Configure + Initialize on an object that has already counted commits starts from scratch (the
			// same commit hashes come back in every case: a merge seen in an earlier history must not count as seen)
			da = prevDA
			stats["cases_on_a_reinitialized_object"]++
		}
		prevDA = da
		da.Configure(map[string]interface{}{leaves.ConfigDevsConsiderEmptyCommits: ce, items.FactTickSize: 24 * time.Hour,
			identity.FactIdentityDetectorReversedPeopleDict: []string{"a", "b", "c"}})
		if err := da.Initialize(repo); err != nil {
			panic(err)
		}
		// a few commits; merge commits (2-3 parents) are replayed several times
		type cm struct {
			h       plumbing.Hash
			parents int
		}
		ncommits := 1 + rng.Intn(5)
		var cms []cm
		for i := 0; i < ncommits; i++ {
			var h plumbing.Hash
			h[0] = byte(i + 1)
			cms = append(cms, cm{h, []int{0, 1, 1, 1, 2, 3}[rng.Intn(6)]})
		}
		var toks []string
		counted := 0
		wantA, wantR, wantC := 0, 0, 0
		seen := map[int]bool{}
		nrep := 1 + rng.Intn(8)
		for r := 0; r < nrep; r++ {
			ci := rng.Intn(ncommits)
			c := cms[ci]
			author := rng.Intn(3)
			if rng.Intn(6) == 0 {
				author = identity.AuthorMissing
			}
			tick := rng.Intn(4)
			nch := rng.Intn(4)
			mflag := c.parents > 1 && rng.Intn(3) > 0
			commit := &object.Commit{Hash: c.h}
			for p := 0; p < c.parents; p++ {
				commit.ParentHashes = append(commit.ParentHashes, plumbing.Hash{byte(100 + p)})
			}
			var changes object.Changes
			var fileStats []items.LineStats
			langs := map[plumbing.Hash]string{}
			ls := map[object.ChangeEntry]items.LineStats{}
			var st []string
			for k := 0; k < nch; k++ {
				var bh plumbing.Hash
				bh[0], bh[1], bh[2] = byte(r+1), byte(k+1), 7
				name := fmt.Sprintf("f%d_%d", r, k)
				entry := object.ChangeEntry{Name: name, TreeEntry: object.TreeEntry{Name: name, Hash: bh}}
				changes = append(changes, &object.Change{To: entry})
				lang := langsPool[rng.Intn(len(langsPool))]
				langs[bh] = lang
				s := items.LineStats{Added: rng.Intn(30), Removed: rng.Intn(30), Changed: rng.Intn(30)}
				// files with only in-place replacements, only insertions, only deletions
				if rng.Intn(3) == 0 {
					s.Added = 0
				}
				if rng.Intn(3) == 0 {
					s.Removed = 0
				}
				if rng.Intn(4) == 0 {
					s.Changed = 0
				}
				fileStats = append(fileStats, s)
				ls[entry] = s
				l := lang
				if l == "" {
					l = "_"
				}
				st = append(st, fmt.Sprintf("%s=%d/%d/%d", l, s.Added, s.Removed, s.Changed))
			}
			mf := 0
			if mflag {
				mf = 1
			}
			toks = append(toks, fmt.Sprintf("%d:%d:%d:%d:%d:%d:%s", ci+1, c.parents, author, tick, nch, mf, strings.Join(st, "|")))
			da.Consume(map[string]interface{}{core.DependencyCommit: commit, core.DependencyIsMerge: mflag,
				identity.DependencyAuthor: author, items.DependencyTreeChanges: changes, items.DependencyTick: tick,
				items.DependencyLanguages: langs, items.DependencyLineStats: ls})
			// reference count of counted replays
			pass := c.parents <= 1 || !seen[ci]
			if c.parents > 1 {
				seen[ci] = true
			}
			if pass && (nch > 0 || ce) {
				counted++
				if !mflag { // a replay flagged as merge counts the commit, its line statistics are ignored
					for _, fs := range fileStats {
						wantA, wantR, wantC = wantA+fs.Added, wantR+fs.Removed, wantC+fs.Changed
					}
				}
			}
		}
		cef := 0
		if ce {
			cef = 1
		}
		fmt.Fprintf(wo, "dc %d %s\n", cef, strings.Join(toks, " "))
		res := da.Finalize().(leaves.DevsResult)
		var out []string
		total := 0
		var tks []int
		for t := range res.Ticks {
			tks = append(tks, t)
		}
		sort.Ints(tks)
		bad := ""
		for _, t := range tks {
			var dvs []int
			for d := range res.Ticks[t] {
				dvs = append(dvs, d)
			}
			sort.Ints(dvs)
			for _, d := range dvs {
				dt := res.Ticks[t][d]
				total += dt.Commits
				var lns []string
				for l := range dt.Languages {
					lns = append(lns, l)
				}
				sort.Strings(lns)
				var lg []string
				sa, sr, sc := 0, 0, 0
				for _, l := range lns {
					v := dt.Languages[l]
					sa, sr, sc = sa+v.Added, sr+v.Removed, sc+v.Changed
					n := l
					if n == "" {
						n = "_"
					}
					lg = append(lg, fmt.Sprintf("%s=%d/%d/%d", n, v.Added, v.Removed, v.Changed))
				}
				if sa != dt.Added || sr != dt.Removed || sc != dt.Changed {
					bad = fmt.Sprintf("tick %d developer %d: languages sum to %d/%d/%d, totals are %d/%d/%d", t, d, sa, sr, sc, dt.Added, dt.Removed, dt.Changed)
				}
				out = append(out, fmt.Sprintf("%d:%d:%d:%d/%d/%d:%s", t, d, dt.Commits, dt.Added, dt.Removed, dt.Changed, strings.Join(lg, ",")))
			}
		}
		fmt.Fprintln(wi, strings.Join(out, " "))
		caseJSON := fmt.Sprintf(`{"consider_empty":%v,"replays":%q}`, ce, strings.Join(toks, " "))
		if bad != "" {
			hv.Fail("devs-consume", caseJSON, bad)
		}
		gotA, gotR, gotC := 0, 0, 0
		for _, dd := range res.Ticks {
			for _, dt := range dd {
				gotA, gotR, gotC = gotA+dt.Added, gotR+dt.Removed, gotC+dt.Changed
			}
		}
		if gotA != wantA || gotR != wantR || gotC != wantC {
			hv.Fail("devs-consume", caseJSON, fmt.Sprintf("added/removed/changed lines total %d/%d/%d, the counted replays carry %d/%d/%d", gotA, gotR, gotC, wantA, wantR, wantC))
		}
		if total != counted {
			hv.Fail("devs-consume", caseJSON, fmt.Sprintf("%d commits attributed, %d replays count (first replay of each merge commit, every other commit; empty ones only if configured)", total, counted))
		}
		stats[fmt.Sprintf("replays_%d", nrep)]++
	}
	hv.Stats(stats)
}
