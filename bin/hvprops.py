"""Per-property configuration of bin/check: which Lean targets are the obligations (always lean/Props/<ID>.lean),
which correspondences tie the models to /repo, with budgets per tier.

A correspondence entry:
  name        observable that is compared (appears in replay files as <ID>/<name>)
  probe       binary under harness/cmd/<probe>: runs the REAL code, writes ops + impl (+ impl.oracle, impl.stats)
  fam         arguments of lean/.lake/build/bin/hvdriver (the Lean model); None = oracle-only probe
  quick/thorough   number of generated cases (or ignored when exhaustive)
  case_start  regex of the ops line that starts a case (None: every line is a case)
  nontrivial  predicate (ops lines, impl lines) of one case; distinct_nontrivial counts distinct non-trivial cases
"""
import re


def _nodes(line):
    return line.count(':')


def nt_fu(ops, impl):
    # at least one update that deletes while the file has >= 2 intervals (>= 3 nodes)
    for i, o in enumerate(ops):
        w = o.split()
        if w[0] == 'upd' and int(w[4]) > 0 and i > 0 and _nodes(impl[i - 1].split('|')[0]) >= 3:
            return True
    return False


def nt_rb(ops, impl):
    ins = sum(1 for o in ops if o.startswith('ins'))
    dels = sum(1 for o, r in zip(ops, impl) if o.startswith('del') and r.startswith('true'))
    return ins >= 7 and dels >= 1


def nt_len(n):
    return lambda ops, impl: len(ops) >= n


def nt_any(ops, impl):
    return True


def nt_has(*toks):
    return lambda ops, impl: all(any(o.startswith(t) for o in ops) for t in toks)


FU = dict(name='File.Update', probe='k03', fam=['fu', 'fixed'], quick=30000, thorough=1500000, case_start=r'^new ',
          nontrivial=nt_fu,
          rule='random op sequences (<=8 updates) on files of 0..6 lines, ticks with repeats, 1/40 out-of-range; '
               'non-trivial = some update deletes while the file has >=2 intervals; distinct by op text')
RB = dict(name='RBTree.Insert/DeleteWithKey', probe='k05', fam=['rb'], quick=1500, thorough=60000, case_start=r'^new$',
          nontrivial=nt_rb, min_per_shard=100,
          rule='5..125 inserts/deletes over 4..63 keys on a fresh allocator; compared: preorder dump (index,key,value,'
               'colour), min/max node, count after every op; Go-side invariant checker runs after every op; '
               'non-trivial = >=7 inserts and >=1 successful delete')
RBQ = dict(name='RBTree.lookups+DeleteWithIterator', probe='k05q', fam=['rb'], quick=800, thorough=30000,
           case_start=r'^new$', nontrivial=nt_has('q', 'del'), min_per_shard=100,
           rule='insert/delete (by key and by iterator) interleaved with FindGE/FindLE/Get/Next/Prev queries')
RBC = dict(name='RBTree.CloneDeep/CloneShallow/Erase', probe='k05c', fam=['rb'], quick=800, thorough=30000,
           case_start=r'^new$', nontrivial=nt_has('deep'), min_per_shard=100,
           rule='deep clones into allocators holding other trees and gaps; Used() accounting and Erase asserted Go-side')
RBW = dict(name='several trees on shared/cloned allocators (Insert/Delete/Erase/CloneDeep/Clone+CloneShallow)', probe='k06w',
           fam=['rbw'], quick=1500, thorough=60000, case_start=r'^new$', nontrivial=nt_has('erase', 'del'), min_per_shard=100,
           rule='1-4 trees on 1-3 allocators, 10-100 ops per case: inserts/deletes (by key and by held iterator), Erase, '
                'deep clones into other allocators, Allocator.Clone + CloneShallow, observations of erased trees; compared after '
                'every op: preorder dump with node indices, min/max node, count, allocator size / sorted gaps / Used(); Go-side: '
                'invariants incl. parent links, node sets of trees pairwise disjoint and disjoint from gaps, Used() = live+1, '
                'iteration both ways = sorted map, held iterators still point at their element')
HB = dict(name='Allocator.Hibernate/Boot/Serialize/Deserialize', probe='k06h', fam=['hb'], quick=3000, thorough=100000,
          case_start=r'^new$', nontrivial=nt_has('hib', 'boot'),
          rule='raw arenas with gaps, thresholds 0..11, hibernate/boot/serialize/deserialize incl. the three panics')
HBF = dict(name='Allocator.Serialize bytes + Deserialize of every truncation', probe='k06f', fam=['hbf'], quick=320, thorough=20000,
           case_start=r'^file ', nontrivial=nt_has('trunc'), min_per_shard=20,
           rule='allocators with 1-60 inserts and random deletions (gaps or none), hibernated, written by the real Serialize; the '
                'file bytes are compared with the model; the file is then cut at EVERY offset (<=400 bytes) or at all section '
                'boundaries +-1 plus 80 random offsets and read back: model and code must both refuse; complete file must restore the allocator')
MG = dict(name='File.Merge', probe='k07', fam=['mg'], quick=20000, thorough=600000, nontrivial=nt_any,
          rule='k=1..4 copies of 0..7 lines with marks / packed authors / unequal lengths; distinct by op text')
TK = dict(name='FloorTime+tick arithmetic', probe='k19', fam=['tk'], quick=50000, thorough=1500000, nontrivial=nt_any,
          rule='times 1960-2360, 6 tick sizes, period boundaries +-1ns, beyond-Duration differences')
TKR = dict(name='TicksSinceStart.Consume + shared registry under Fork', probe='k19r', fam=['tk'], quick=5000, thorough=200000,
           case_start=r'^tnew ', nontrivial=nt_has('tfork', 'tcons'), min_per_shard=200,
           rule='one item forked into up to 3 further branches, 2-9 commits, merge commits replayed on 2-4 branches, committer '
                'times monotone in half of the cases; compared: tick and the whole registry after every Consume')
LN = dict(name='CountLines/DiffLinesToRunes/LinesStats', probe='k11', fam=['ln'], quick=30000, thorough=600000,
          nontrivial=nt_any, rule='byte strings over {a,b,LF,space,CR,0xff,x} up to 11 bytes; random edit scripts')
LNC = dict(name='LinesStatsCalculator.Consume (whole commits)', probe='k12', fam=['ln'], quick=40000, thorough=1000000,
           nontrivial=lambda ops, impl: ops[0].count(':') >= 4,
           rule='0-6 changes per commit (insert / delete / modify of distinct files), binary blobs, merge commits, scripts with '
                'multi-byte runes and occasional double deletes; non-trivial = at least two changes')
ONES = dict(name='OneShotMergeProcessor.ShouldConsumeCommit', probe='k12o', fam=['pl'], quick=10000, thorough=300000,
            case_start=r'^new$', nontrivial=nt_len(4),
            rule='replay sequences over 1-8 commits with 0-5 parents, merges replayed once per parent branch (or fewer), adjacent '
                 'or interleaved, on one shared processor')
K11D = dict(name='FileDiff.Consume output through the Lean script validator', probe='k11d', fam=['ln'], quick=60000, thorough=2000000,
            nontrivial=lambda ops, impl: ops[0].count(',') >= 4,
            rule='blob pairs of 0-9 lines from a pool with duplicates, CRLF, invalid UTF-8, missing final newline, or from three '
                 'distinct lines only; cleanup on/off; every script is checked by Bd.validScript (equal runs identical, counts, '
                 'canonical shape)')
CD = dict(name='Burndown Serialize/Deserialize rows+CSR', probe='k17', fam=['cd'], quick=4000, thorough=80000,
          nontrivial=nt_any, rule='random dense matrices incl. negatives, zeros, 2^32-1; CSR interaction matrices')
CDC = dict(name='Couples/Devs Serialize/Deserialize (map CSR, names, lines, touched files, ticks)', probe='k17c', fam=['cd'],
           quick=3000, thorough=100000, nontrivial=lambda ops, impl: ops[0].startswith('ccsr') and '=' in ops[0],
           rule='couples results with 0-5 files / 0-4 developers (+ unmatched row), explicit zero entries, empty rows, unicode / '
                'empty names, large counters; developer statistics with the unmatched author, empty language names, 4 tick sizes')
TS = dict(name='toposort.Graph', probe='k15', fam=['ts'], quick=5000, thorough=150000, case_start=r'^new$',
          nontrivial=nt_has('edge', 'sort'), rule='random builds with removals and re-indexing, then Toposort')
DEP = dict(name='Pipeline.DeployItem', probe='k10d', fam=['ts'], quick=6000, thorough=200000, nontrivial=nt_any,
           rule='synthetic registry of 12 plumbing types over 6 entities (gated and plain providers in every registration order), 1-3 leaves deployed in turn, features set before and by the leaves')
RES = dict(name='Pipeline.Initialize(resolve)', probe='k10', fam=['ts'], quick=3000, thorough=60000, nontrivial=nt_any,
           rule='synthetic item sets (provides/requires over 3-6 entities, same names, cycles, duplicated providers)')
IDG = dict(name='GeneratePeopleDict+Consume', probe='k16', fam=['idn'], quick=4000, thorough=100000, nontrivial=nt_any,
           rule='commit lists whose names/e-mails share tokens, mixed case, empty fields')
IDM = dict(name='MergeReversedDictsIdentities', probe='k18i', fam=['idn'], quick=15000, thorough=400000,
           nontrivial=nt_any, rule='pairs of identity lists, a third malformed (shared token inside one list)')
DC = dict(name='DevsAnalysis.Consume over replay sequences', probe='k12d', fam=['idn'], quick=10000, thorough=400000, nontrivial=nt_any,
          rule='1-8 replays of 1-5 commits (0-3 parents, merge commits replayed repeatedly), 3 developers + the unmatched author, 4 languages incl. the empty one, empty commits counted or not')
CM = dict(name='CouplesAnalysis.MergeResults', probe='k18m', fam=['idn'], quick=6000, thorough=200000, nontrivial=nt_any,
          rule='pairs of couples results over 6 file names and 2 identity pools (shared e-mails / names), unmatched-author rows, zero cells')
DEV = dict(name='DevsAnalysis.MergeResults', probe='k18d', fam=['idn'], quick=8000, thorough=200000, nontrivial=nt_any,
           rule='pairs of devs results with overlapping identities, 4 tick sizes, begin times up to 11 days apart')
GS = dict(name='groupSparseHistory', probe='k01g', fam=['gs'], quick=30000, thorough=600000, nontrivial=nt_any,
          extra=['1'], rule='sparse histories up to tick 24, sampling/granularity 1..6 (1/10 sampling>granularity)')
RT = dict(name='updateGlobal/updateAuthor/updateMatrix', probe='k01r', fam=['gs'], quick=15000, thorough=300000,
          nontrivial=nt_any, rule='report lists with packed authors, unmatched author, out-of-range author')
BD = dict(name='BurndownAnalysis.Consume(one branch)', probe='kbd', fam=['bd', 'fixed'], quick=3000, thorough=80000,
          case_start=r'^init ', nontrivial=nt_has('mod'),
          rule='several files, 0-3 developers, canonical and broken scripts, wrong declared line counts, renames reported with an edit (also onto a tracked name)')
DAG = dict(name='BurndownAnalysis.Consume/Fork/Merge', probe='kdag', fam=['dag', 'fixed'], quick=2000, thorough=60000,
           case_start=r'^init ', nontrivial=nt_has('fork', 'merge'), silent=r'^(begin|add|rm|mod|ren) ',
           rule='DAG runs with forks of arity 2-3, merge-mode replays, deletions/additions/renames with edits inside merges')
GC = dict(name='collectGarbage+insertHibernateBoot', probe='k04', fam=['pl'], quick=1500, thorough=40000,
          nontrivial=nt_any, rule='random DAGs of 3..27 commits x distance 1..6; stage outputs of one planner run')
RUN = dict(name='Pipeline.Run event log', probe='k14', fam=['pl'], quick=3000, thorough=80000, nontrivial=nt_any,
           rule='histories of 1-14 commits (<=3 parents, several roots), distance 0-3, 1-5 recording items, 13% '
                'injected failures (consume error, omitted output, hibernate/boot failure)')
TD = dict(name='TreeDiff.Consume', probe='k20', fam=['td'], quick=1500, thorough=40000, case_start=r'^cfg ', silent=r'^cfg ',
          nontrivial=nt_has('commit'), rule='histories with file<->dir transitions, submodules, mode flips, filters')
PFORK = dict(name='plumbing items under Fork(n): TreeDiff / BlobCache / TicksSinceStart per-branch memory', probe='k08p', fam=['td'],
             quick=3000, thorough=100000, case_start=r'^cfg ', silent=r'^cfg ', nontrivial=nt_has('fork'), min_per_shard=100,
             rule='tree-shaped histories of 3-12 commits with 2-4 children per branching commit, real Fork(k-1) of the three items at '
                  'every branching, children replayed in random order; TreeDiff changes per branch compared with the branch-aware '
                  'model; Go-side: clones distinct, no wrong-parent refusal, blob bytes exact, ticks clamped along the own branch, '
                  'registry lists each commit once')
BC = dict(name='BlobCache.Consume', probe='k20b', fam=['bc'], quick=1500, thorough=40000, case_start=r'^new',
          extra=['bc'], nontrivial=nt_has('bc'), rule='tree-diff histories with randomly removed blob objects')

RN = dict(name='RenameAnalysis.Consume stage 1 (hash scan)', probe='krn', fam=['rn'], quick=40000, thorough=1000000,
          nontrivial=lambda ops, impl: (ops[0].startswith('scan') and 'm:-' not in impl[0]) or (ops[0].startswith('rn2') and not ops[0].endswith(' -')),
          rule='change sets of 1-9 adds/deletes/modifications over 2-7 contents; even cases all blobs < 32 bytes '
               '(output = stage-1 scan, compared with Rn.scan), odd cases sizes around 32 B and the similarity window, '
               'thresholds 0-100, 1/8 with a 1 ns timeout: every reported rename is replayed by Rn.applyMatches (legal pair, '
               'leftovers, exact-rename count per hash); non-trivial = at least one exact rename')
E01 = dict(name='end-to-end: real Pipeline.Run + BurndownAnalysis vs line-lifetime ground truth', probe='e01', fam=None,
           quick=4000, thorough=400000,
           nontrivial=lambda ops, impl: '],[' in ops[0] and ',' in ops[0].split('"Parents":')[1].split(']]')[0].replace('],[', ' ').split(' ')[-1],
           rule='conflict-free DAG histories (3-14 commits, two-parent and octopus merges, optional second root, optional '
                'redundant two-parent edges, 3 authors, 2 files) built as in-memory go-git repositories; sampling<=granularity in 1..4; '
                'a third each: no hibernation / in memory / on disk (distance 1-3, thresholds 0,3,10,1000); checked: global, per-file, '
                'per-developer matrices, ownership, interaction matrix == ground truth; result with hibernation == without, no temp '
                'file left; binary round trip identity; non-trivial = history ends in a merge-containing DAG')
E01V = dict(name='end-to-end: DAG histories that delete and re-create files (known finding stream)', probe='e01', fam=None,
            quick=600, thorough=60000, extra=['14', 'volatile'], nontrivial=nt_any,
            rule='as the ground-truth stream, plus 1-2 extra files that may lose all their lines (file deleted) and come back; '
                 'failures are accepted only in the decidable class "history with a merge in which a file present in a commit is '
                 'absent in one of its children" (known finding C01-file-deleted-in-dag)')
E01L = dict(name='end-to-end: linear histories with arbitrary edits (row sums, non-negativity)', probe='e01l', fam=None,
            quick=4000, thorough=400000, nontrivial=nt_any,
            rule='3-14 commits, 1-3 edits each over 3 paths (nested dir): repeated lines, deletions, renames, binary flips, '
                 'missing final newline; checked: no negative cell, last row sum == text lines at HEAD, per file likewise')
def _o(name, probe, quick, thorough, rule, extra=None):
    d = dict(name=name, probe=probe, fam=None, quick=quick, thorough=thorough, nontrivial=nt_any, rule=rule)
    if extra:
        d['extra'] = extra
    return d


E05 = _o('oracle: rbtree/allocator invariants on several trees incl. hibernation and clone round trips', 'e05', 600, 40000,
         'random multi-tree operation sequences on the real red-black tree: every invariant, content, iterator position, '
         'allocator disjointness and hibernation / clone round trip')
E14 = _o('oracle: recording items through the real Pipeline.Run (exactly-once, per-parent replay, merge flag)', 'e14', 1500, 60000,
         'DAG histories of 3-14 commits in in-memory repositories, real DevsAnalysis / CommitsAnalysis and recording items')
E16I = _o('oracle: GeneratePeopleDict / Consume on generated commit lists', 'e16', 4000, 200000,
          'totality, same e-mail => same developer, descriptions = names then e-mails', ['c16'])
E16M = _o('oracle: MergeReversedDictsIdentities component structure', 'e16', 4000, 200000,
          'pairs of well-formed identity lists: every identity indexed, equal final index iff connected, union descriptions', ['c16merge'])
E16MM = _o('oracle: GeneratePeopleDict / Consume with a .mailmap in the last commit', 'e16', 4000, 200000,
           'commit lists as above, 1-4 mailmap lines of the four git forms mixing proper and commit names / e-mails', ['c16mm'])
E16S = _o('oracle: MergeReversedDictsIdentities on lists with a token shared inside one list (known finding stream D9)', 'e16', 2000, 100000,
          'as above, one token of an entry repeated in another entry of the same list; failures accepted only in the class token-shared-within-list', ['c16mergeS'])
E19 = _o('oracle: TicksSinceStart through Consume (floor, clamp, registry)', 'e16', 4000, 200000,
         'random commit-time sequences and five tick sizes', ['c19'])
E11 = _o('oracle: FileDiff output is a canonical edit script with consistent counts', 'e16', 160000, 3000000,
         'random blob pairs (CRLF, invalid UTF-8, duplicates, no final newline, cleanup on/off): counts, identical equal runs, shape', ['c11'])
E11W = _o('oracle: FileDiff with whitespace-ignore: canonical script, counts agree with the line counter', 'e16', 60000, 1500000,
          'random blob pairs over lines that differ in spaces only, space-only lines, space-only last line without newline; cleanup on/off', ['c11ws'])
E18 = _o('oracle: devs / couples / summary merges conserve totals', 'e18', 300, 20000,
         'pairs of results of real runs on synthetic repositories with partially overlapping files and identities')
E20N = _o('oracle: TreeDiff+BlobCache, no filter', 'e20', 600, 40000, 'apply(changes, previous set) == current set; blob bytes', ['none'])
E20P = _o('oracle: TreeDiff+BlobCache, path prefix filter', 'e20', 600, 40000, 'as above under SkipFiles prefixes', ['prefix'])
E20R = _o('oracle: TreeDiff+BlobCache, name pattern filter', 'e20', 600, 40000, 'as above under a name regexp', ['regex'])
E20L = _o('oracle: TreeDiff+BlobCache, language filter (known finding stream D10)', 'e20', 300, 20000,
          'language filter {c, go}; failures accepted only in the class language-flip', ['lang'])
E20S = _o('oracle: TreeDiff+BlobCache, submodule in the first commit (known finding stream D15)', 'e20', 300, 20000,
          'submodule entries allowed in the first commit; failures accepted only in the class submodule-in-first-commit', ['none-sub0'])

E10 = dict(name='every subset of the registered leaves, features on/off (deploy closure, success, order through the Lean checker)', probe='e10',
           fam=['ts'], quick=0, thorough=0, exhaustive=True, shards={'quick': 1, 'thorough': 1}, nontrivial=nt_any,
           rule='all 2^n-1 subsets of the leaves registered in the current tree x features on/off: deployed set == closure of the '
                'providers enabled at deployment time, initialisation succeeds iff no requirement is left without provider, '
                'resolved order valid')
K18C = _o('oracle: CouplesAnalysis.MergeResults cell by cell (re-indexed sums, unions of touched files)', 'k18c', 8000, 300000,
          'pairs of couples results over 5 file names and 6 identities (shared e-mails / names), rows of the unmatched author, '
          'results as produced by Finalize and as read back from the binary format')
E10S = _o('oracle: DeployItem on a synthetic registry (closure of the enabled providers, every registration order of gated and plain providers)', 'e10s', 4000, 200000,
          '12 plumbing types over 6 entities, 3 leaves, requirements drawn per case, features set before and by the leaves')
RNH = _o('oracle: RenameAnalysis under load (time budgets ending inside the similarity passes)', 'krnh', 240, 12000,
         '5-75 deleted x 5-75 added files of 0.3-1.5 KB (unrelated / moved with edits / look-alike), budgets 1ns..25ms..unlimited: re-pairing, exact duplicates, no panic, no deadlock')
RNHR = _o('oracle: RenameAnalysis under load, race detector build (data races between the two matchers end the case)', 'krnh.race', 40, 2000,
          'the same generator with at most 30 files per side, binary built with go build -race, GORACE=halt_on_error', ['light'])
K09B = _o('oracle: BurndownAnalysis Hibernate/Boot through a file (intact, removed, cut to every shorter length)', 'k09b', 1500, 60000,
          '1-8 files, thresholds 0/3/1000; an intact file must boot to the state of a never-hibernated twin, a damaged one must make Boot fail')
K18B = _o('oracle: BurndownAnalysis.MergeResults developer histories, interaction matrix, global history', 'k18b', 4000, 150000,
          'pairs of burndown results over two overlapping identity pools, 5 sampling/granularity pairs, begin dates up to 5 days apart, '
          'results without developer tracking on one side')
PLAN4 = dict(name='prepareRunPlan validated (all graphs of 4 commits x all hash orders)', probe='kplan', fam=['pl'],
             quick=0, thorough=0, exhaustive=True, extra=['exh', '4'], shards={'quick': 2, 'thorough': 2},
             nontrivial=lambda ops, impl: ' F:' in ops[0] or ' M:' in ops[0],
             rule='every parent assignment (<=3 parents, any number of roots/components) x all 24 hash orders, '
                  'distance = order index mod 4; non-trivial = plan contains a fork or a merge')
PLAN5 = dict(name='prepareRunPlan validated (all graphs of 5 commits x all hash orders)', probe='kplan', fam=['pl'],
             quick=0, thorough=0, exhaustive=True, extra=['exh', '5'], shards={'quick': 16, 'thorough': 16},
             nontrivial=lambda ops, impl: ' F:' in ops[0] or ' M:' in ops[0],
             rule='960 parent assignments x all 120 hash orders (115 200 plans), distance = order index mod 4')
PLAN6 = dict(name='prepareRunPlan validated (all graphs of 6 commits x sampled hash orders)', probe='kplan', fam=['pl'],
             quick=1, thorough=24, exhaustive=True, extra=['exh', '6'], shards={'quick': 16, 'thorough': 16},
             nontrivial=lambda ops, impl: ' F:' in ops[0] or ' M:' in ops[0],
             rule='24 960 parent assignments x seeded sample of the 720 hash orders and of the distances 0..3')
PLANR = dict(name='prepareRunPlan validated (random graphs up to 60 commits)', probe='kplan', fam=['pl'],
             quick=1500, thorough=100000, extra=['rand', '60'],
             nontrivial=lambda ops, impl: ' F:' in ops[0] and ' M:' in ops[0],
             rule='layered / criss-cross / octopus graphs with duplicate and redundant parent edges, extra roots, '
                  'distance 0..4; non-trivial = plan has a fork and a merge')

PROPS = {
    'C01': dict(corr=[GS, RT, BD, DAG, E01, E01L, E01V]),
    'C02': dict(level='translation_validation', corr=[PLAN4, PLAN5, PLAN6, PLANR, RUN, PFORK, E14]),
    'C03': dict(corr=[FU]),
    'C04': dict(corr=[GC, PLAN5, PLANR, RUN]),
    'C05': dict(corr=[RB, RBQ, RBC, RBW, E05]),
    'C06': dict(corr=[RB, RBC, RBW, HB, HBF, E05]),
    'C07': dict(corr=[MG, DAG]),
    'C08': dict(corr=[DAG, RBC, RBW, PFORK, TKR]),
    'C09': dict(corr=[RUN, HB, HBF, K09B, E01]),
    'C10': dict(level='translation_validation', corr=[RES, DEP, TS, E10, E10S]),
    'C11': dict(corr=[LN, K11D, BC, E11, E11W, E20N]),
    'C12': dict(corr=[LN, LNC, ONES, DC, RUN, E14]),
    'C13': dict(corr=[RN, RNH, RNHR]),
    'C14': dict(corr=[RUN, E14]),
    'C15': dict(corr=[TS]),
    'C16': dict(corr=[IDG, IDM, E16I, E16MM, E16M, E16S]),
    'C17': dict(corr=[CD, CDC, E01]),
    'C18': dict(corr=[DEV, IDM, CM, K18C, K18B, E18]),
    'C19': dict(corr=[TK, TKR, E19, PFORK]),
    'C20': dict(corr=[TD, BC, PFORK, E20N, E20P, E20R, E20L, E20S]),
}
