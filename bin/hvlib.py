#!/usr/bin/env python3
"""Engine shared by bin/check and bin/setup.

Verdict logic (DESIGN.md section 3):
  1 rebuild the Go harness from /repo's current working tree with -tags verif; regenerate lean/Gen/*.lean
  2 PROOF GATE      lake build Props.<ID> (+ the core-only driver)
  3 AUDIT           forbidden tokens, `#print axioms` of every theorem of Props/<ID>.lean
  4 CORRESPONDENCE  probe (real code) -> ops + impl lines ; hvdriver (Lean model) -> model lines ; diff
  5 ORACLE          property statements evaluated on the implementation alone (probe *.oracle lines)
  6 REPORT          VIOLATION / KNOWN-FINDING lines, evidence/<ID>.json, replays/<...>.json
"""
import os, sys, json, re, subprocess, time, hashlib, shutil, glob, resource
from concurrent.futures import ThreadPoolExecutor

VERIF = os.path.dirname(os.path.dirname(os.path.abspath(__file__)))
REPO = os.environ.get('VERIF_REPO', '/repo')
WORK = os.path.join(VERIF, '.work')
LEAN = os.path.join(VERIF, 'lean')
HARN = os.path.join(VERIF, 'harness')
BIN = os.path.join(WORK, 'bin')
DRIVER = os.path.join(LEAN, '.lake', 'build', 'bin', 'hvdriver')
ALLOWED_AXIOMS = {'propext', 'Classical.choice', 'Quot.sound'}
FORBIDDEN = re.compile(r'\b(sorry|admit|native_decide|bv_decide|implemented_by|unsafe)\b|^\s*axiom\s|maxHeartbeats\s+0\b')
NCPU = os.cpu_count() or 4
PROBE_TIMEOUT = [300]   # seconds per shard; bin/check raises it for the thorough tier

GOENV = dict(os.environ, **({'GOCOVERDIR': os.environ['VERIF_COVER']} if os.environ.get('VERIF_COVER') else {}), GORACE='halt_on_error=1 exitcode=66', GOFLAGS='-mod=mod', GOPROXY='off', GOSUMDB='off', GOTOOLCHAIN='local',
             CGO_CFLAGS='-w', GOMEMLIMIT='4GiB')


def log(*a):
    print(*a, file=sys.stderr, flush=True)


def run(cmd, cwd=None, env=None, timeout=None, stdin=None, stdout=subprocess.PIPE):
    return subprocess.run(cmd, cwd=cwd, env=env, timeout=timeout, stdin=stdin, stdout=stdout,
                          stderr=subprocess.STDOUT if stdout == subprocess.PIPE else subprocess.PIPE)


# ------------------------------------------------------------------ builds

def build_harness(pkgs=None):
    """go build -tags verif of the probes against /repo's working tree.  Returns (ok, output)."""
    os.makedirs(BIN, exist_ok=True)
    shutil.copyfile(os.path.join(REPO, 'go.sum'), os.path.join(HARN, 'go.sum'))
    gomod = os.path.join(HARN, 'go.mod')
    s = open(gomod).read()
    s2 = re.sub(r'replace gopkg.in/src-d/hercules.v10 => \S+', 'replace gopkg.in/src-d/hercules.v10 => ' + REPO, s)
    if s2 != s:
        open(gomod, 'w').write(s2)
    race = [p[:-5] for p in (pkgs or []) if p.endswith('.race')]
    if pkgs:
        pkgs = [p for p in pkgs if not p.endswith('.race')]
    targets = ['./cmd/' + p for p in pkgs] if pkgs else ['./cmd/...']
    cover = ['-cover', '-coverpkg=gopkg.in/src-d/hercules.v10/...'] if os.environ.get('VERIF_COVER') else []
    r = run(['go', 'build'] + cover + ['-tags', 'verif', '-o', BIN + '/'] + targets, cwd=HARN, env=GOENV, timeout=1500)
    out = r.stdout.decode(errors='replace')
    for p in race:
        # the same probe with the race detector: a data race in the real code ends the case (exit code 66)
        r2 = run(['go', 'build', '-race', '-tags', 'verif', '-o', os.path.join(BIN, p + '.race'), './cmd/' + p],
                 cwd=HARN, env=GOENV, timeout=1500)
        out += r2.stdout.decode(errors='replace')
        if r2.returncode != 0:
            r = r2
    out = '\n'.join(l for l in out.splitlines() if 'tree-sitter' not in l and 'trigraph' not in l
                    and not re.match(r'^\s*(\d+\s*)?\|', l))
    return r.returncode == 0, out


def gen_facts():
    """Regenerate lean/Gen/*.lean from the compiled current source (constants, registry table)."""
    exe = os.path.join(BIN, 'facts')
    if not os.path.exists(exe):
        return False, 'facts probe missing'
    r = run([exe], env=GOENV, timeout=300)
    if r.returncode != 0:
        return False, r.stdout.decode(errors='replace')
    out = r.stdout.decode()
    # the probe prints files separated by "-- FILE: <name>" lines
    files = {}
    cur = None
    for line in out.splitlines():
        m = re.match(r'^-- FILE: (\S+)$', line)
        if m:
            cur = m.group(1)
            files[cur] = []
        elif cur:
            files[cur].append(line)
    os.makedirs(os.path.join(LEAN, 'Gen'), exist_ok=True)
    for name, lines in files.items():
        p = os.path.join(LEAN, 'Gen', name)
        txt = '\n'.join(lines) + '\n'
        if not os.path.exists(p) or open(p).read() != txt:
            open(p, 'w').write(txt)
    return True, ''


def lake_build(targets, timeout=3000):
    r = run(['lake', 'build'] + targets, cwd=LEAN, timeout=timeout)
    out = r.stdout.decode(errors='replace')
    return r.returncode == 0, out


def theorem_names(pid):
    p = os.path.join(LEAN, 'Props', pid + '.lean')
    names = []
    ns = None
    for line in open(p):
        m = re.match(r'^namespace\s+(\S+)', line)
        if m and ns is None:
            ns = m.group(1)
        m = re.match(r"^theorem\s+([^\s:({\[]+)", line)
        if m:
            names.append((ns + '.' if ns else '') + m.group(1))
    return names


def strip_comments(src):
    # remove block comments (nested) and line comments
    out = []
    i = 0
    depth = 0
    n = len(src)
    while i < n:
        if src.startswith('/-', i):
            depth += 1
            i += 2
        elif depth and src.startswith('-/', i):
            depth -= 1
            i += 2
        elif depth:
            if src[i] == '\n':
                out.append('\n')
            i += 1
        elif src.startswith('--', i):
            while i < n and src[i] != '\n':
                i += 1
        else:
            out.append(src[i])
            i += 1
    return ''.join(out)


def forbidden_tokens():
    hits = []
    for p in glob.glob(os.path.join(LEAN, '**', '*.lean'), recursive=True):
        if '/.lake/' in p:
            continue
        src = strip_comments(open(p).read())
        # string literals may legitimately contain words; drop them
        src = re.sub(r'"(?:\\.|[^"\\])*"', '""', src)
        for ln, line in enumerate(src.splitlines(), 1):
            if FORBIDDEN.search(line):
                hits.append('%s:%d: %s' % (os.path.relpath(p, LEAN), ln, line.strip()))
    return hits


def audit(pid):
    """#print axioms for every theorem of Props/<pid>.lean.  Returns (obligations, discharged, problems, detail)."""
    names = theorem_names(pid)
    os.makedirs(os.path.join(WORK, 'audit'), exist_ok=True)
    f = os.path.join(WORK, 'audit', pid + '_audit.lean')
    with open(f, 'w') as fh:
        fh.write('import Props.%s\n' % pid)
        for n in names:
            fh.write('#print axioms %s\n' % n)
    r = run(['lake', 'env', 'lean', f], cwd=LEAN, timeout=1200)
    out = r.stdout.decode(errors='replace')
    detail = {}
    problems = []
    for m in re.finditer(r"'([^'\s]+(?:'[^'\s]*)*)' depends on axioms: \[([^\]]*)\]", out.replace('\n', ' ')):
        axs = {a.strip() for a in m.group(2).split(',') if a.strip()}
        detail[m.group(1)] = sorted(axs)
    for m in re.finditer(r"'([^'\s]+(?:'[^'\s]*)*)' does not depend on any axioms", out):
        detail[m.group(1)] = []
    discharged = 0
    for n in names:
        if n not in detail:
            problems.append('theorem %s: no axiom report (does it compile?)' % n)
        elif not set(detail[n]) <= ALLOWED_AXIOMS:
            problems.append('theorem %s depends on inadmissible axioms %s' % (n, detail[n]))
        else:
            discharged += 1
    if r.returncode != 0:
        problems.append('audit file failed to compile: ' + out[-2000:])
    return len(names), discharged, problems, detail


# ------------------------------------------------------------------ correspondence

def split_cases(ops, case_start):
    """indices of the first op line of every case"""
    if case_start is None:
        return list(range(len(ops)))
    rx = re.compile(case_start)
    starts = [i for i, l in enumerate(ops) if rx.match(l)]
    if not starts or starts[0] != 0:
        starts = [0] + starts
    return starts


def real_code_panic(err):
    """does the Go traceback of a dead probe reach src-d/hercules itself before it reaches the probe (main.*) or the
    harness?  Frames of the Go runtime and the standard library in between are skipped."""
    m = re.search(r'goroutine \d+ \[running\]:\n((?:.*\n)*)', err or '')
    if not m:
        return False
    for line in m.group(1).split('\n'):
        if not line or line[0] in '\t /':
            continue            # file:line lines
        line = line.strip()
        if line.startswith('main.') or '/verifharness/' in line:
            return False
        if line.startswith('gopkg.in/src-d/hercules.v10/'):
            return True
        if line.startswith('goroutine '):
            break
    return False


def run_shard(spec, seed, count, tag):
    """runs one probe shard + the Lean driver on its ops.  Returns dict with paths and status."""
    d = os.path.join(WORK, 'run', tag)
    os.makedirs(d, exist_ok=True)
    ops, impl, model = [os.path.join(d, x) for x in ('ops.txt', 'impl.txt', 'model.txt')]
    for p in (ops, impl, model, impl + '.oracle', impl + '.stats'):
        if os.path.exists(p):
            os.remove(p)
    res = dict(dir=d, ops=ops, impl=impl, model=model, seed=seed, count=count, probe_rc=None, driver_rc=None, err='')
    exe = os.path.join(BIN, spec['probe'])
    t0 = time.time()
    if os.path.exists(impl + '.current'):
        os.remove(impl + '.current')

    def limits():
        # a runaway real-code loop must not take the machine down: 10 GiB address space per probe
        resource.setrlimit(resource.RLIMIT_AS, (10 << 30, 10 << 30))
    # scratch files of the probe (hibernation files, temporary repositories) live under the shard's own directory and
    # go away with it - also when the probe dies or is killed
    ptmp = os.path.join(d, 'tmp')
    shutil.rmtree(ptmp, ignore_errors=True)
    os.makedirs(ptmp, exist_ok=True)
    penv = dict(GOENV, TMPDIR=ptmp)
    try:
        r = subprocess.run([exe, str(seed), str(count), ops, impl] + [str(x) for x in spec.get('extra', [])],
                           cwd=d, env=penv, stdout=subprocess.PIPE, stderr=subprocess.PIPE,
                           timeout=spec.get('timeout', PROBE_TIMEOUT[0]), preexec_fn=limits)
        res['probe_rc'] = r.returncode
        if r.returncode != 0:
            res['err'] = (r.stderr.decode(errors='replace')[-3000:] + r.stdout.decode(errors='replace')[-1000:])
    except subprocess.TimeoutExpired:
        res['probe_rc'] = -9
        res['err'] = 'probe timeout'
    res['probe_s'] = time.time() - t0
    if res['probe_rc'] != 0 and os.path.exists(impl + '.current'):
        res['current_case'] = open(impl + '.current').read().strip()
    elif res['probe_rc'] not in (0, None, -9) and count > 0 and real_code_panic(res['err']):
        # a line-protocol probe died inside the real code: find the first case that kills it (every probe derives its
        # cases from the seed in order, so a shorter run is a prefix of a longer one)
        # bounded: a run may take twice as long as the one that died, the whole search three minutes (a nondeterministic
        # failure - a data race - may hang instead of dying; then the search gives up and the crash is reported as such)
        one_run = max(10.0, 2 * res['probe_s'] + 5)
        deadline = time.time() + 180

        def dies(k):
            if time.time() > deadline:
                raise TimeoutError()
            try:
                r2 = subprocess.run([exe, str(seed), str(k), ops + '.bisect', impl + '.bisect'] +
                                    [str(x) for x in spec.get('extra', [])], cwd=d, env=penv, stdout=subprocess.DEVNULL,
                                    stderr=subprocess.DEVNULL, timeout=one_run, preexec_fn=limits)
                return r2.returncode != 0
            except subprocess.TimeoutExpired:
                raise TimeoutError()
        lo, hi = 0, count          # survives lo cases, dies within hi
        try:
            if dies(hi):
                while hi - lo > 1:
                    mid = (lo + hi) // 2
                    if dies(mid):
                        hi = mid
                    else:
                        lo = mid
                res['current_case'] = '%d/%d (seed / number of the case, counted from 1, in that probe run)' % (seed, hi)
        except TimeoutError:
            pass
        for x in (ops + '.bisect', impl + '.bisect', impl + '.bisect.oracle', impl + '.bisect.stats'):
            if os.path.exists(x):
                os.remove(x)
    shutil.rmtree(ptmp, ignore_errors=True)
    if spec.get('fam') is not None and os.path.exists(ops):
        t0 = time.time()
        with open(ops, 'rb') as fin, open(model, 'wb') as fout:
            try:
                r = subprocess.run([DRIVER] + spec['fam'], stdin=fin, stdout=fout, stderr=subprocess.PIPE,
                                   timeout=spec.get('timeout', 3000))
                res['driver_rc'] = r.returncode
                if r.returncode != 0:
                    res['err'] += r.stderr.decode(errors='replace')[-2000:]
            except subprocess.TimeoutExpired:
                res['driver_rc'] = -9
                res['err'] += 'driver timeout'
        res['driver_s'] = time.time() - t0
    return res


def read_lines(p):
    if not os.path.exists(p):
        return []
    with open(p, 'r', errors='replace') as f:
        return f.read().split('\n')[:-1]


def compare_shard(spec, res):
    """Returns (ncases, distinct_keys(set of hashes), nontrivial count, first_diff or None, samples, oracle_fails)."""
    ops = read_lines(res['ops'])
    impl_raw = read_lines(res['impl'])
    starts = split_cases(ops, spec.get('case_start'))
    bounds = starts + [len(ops)]
    # ops lines that produce no output line (per probe); output line k belongs to the k-th non-silent op
    silent = re.compile(spec['silent']) if spec.get('silent') else None
    vis = [i for i, o in enumerate(ops) if not (silent and silent.match(o))]

    def spread(lines):
        out = [''] * len(ops)
        for k, i in enumerate(vis):
            if k < len(lines):
                out[i] = lines[k]
        return out
    impl = spread(impl_raw)
    first = None
    if spec.get('fam') is not None:
        model_raw = read_lines(res['model'])
        n = min(len(impl_raw), len(model_raw))
        for k in range(n):
            if impl_raw[k] != model_raw[k]:
                first = vis[k] if k < len(vis) else len(ops) - 1
                break
        if first is None and len(impl_raw) != len(model_raw):
            first = vis[n] if n < len(vis) else max(0, len(ops) - 1)
        if first is None and len(impl_raw) != len(vis):
            first = vis[min(len(impl_raw), len(vis) - 1)] if vis else 0
        model = spread(model_raw)
    else:
        model = []
    nt = spec.get('nontrivial')
    keys = set()
    nontriv = 0
    samples = []
    for ci in range(len(starts)):
        a, b = bounds[ci], bounds[ci + 1]
        co = ops[a:b]
        h = hashlib.blake2b('\n'.join(co).encode(), digest_size=8).digest()
        is_nt = True
        if nt is not None:
            try:
                is_nt = bool(nt(co, impl[a:b]))
            except Exception:
                is_nt = False
        if is_nt and h not in keys:
            keys.add(h)
            nontriv += 1
            if len(samples) < 2:
                samples.append({'ops': co[:12], 'impl': impl[a:b][:12]})
    diff = None
    if first is not None:
        # locate case
        ci = 0
        for k in range(len(starts)):
            if starts[k] <= first:
                ci = k
        a, b = bounds[ci], bounds[ci + 1]
        diff = dict(case_index=ci, line=first, ops=ops[a:b], impl=impl[a:b], model=model[a:b],
                    first_diff_offset=first - a)
    fails = []
    for l in read_lines(res['impl'] + '.oracle'):
        parts = l.split('\t')
        if len(parts) >= 3 and parts[0] == 'FAIL':
            try:
                case = json.loads(parts[2])
            except Exception:
                case = parts[2]
            fails.append(dict(cls=parts[1], case=case, what=parts[3] if len(parts) > 3 else ''))
    stats = {}
    sp = res['impl'] + '.stats'
    if os.path.exists(sp):
        try:
            stats = json.load(open(sp))
        except Exception:
            stats = {}
    return len(starts), keys, diff, samples, fails, stats


# ------------------------------------------------------------------ known findings

def load_findings():
    p = os.path.join(VERIF, 'known_findings.json')
    if not os.path.exists(p):
        return []
    return json.load(open(p))['findings']


_frozen_cache = {}


def frozen_set(path):
    if path not in _frozen_cache:
        s = set()
        fp = os.path.join(VERIF, path)
        if os.path.exists(fp):
            s = {l.strip() for l in open(fp) if l.strip()}
        _frozen_cache[path] = s
    return _frozen_cache[path]


def match_finding(pid, fail, findings):
    """A failure is suppressed only by an entry with status 'finding' for this property whose class equals
    the class the probe computed (decidable predicate in the probe) and, if the case lies in the enumerated
    small scope of the entry, whose frozen list contains the case key; or by an exact witness match."""
    for f in findings:
        if f.get('property') != pid or f.get('status') != 'finding':
            continue
        if 'witness' in f and f.get('match') == 'exact':
            if fail['case'] == f['witness']:
                return f
            continue
        if f.get('class') and f['class'] == fail['cls']:
            case = fail['case']
            if isinstance(case, dict) and case.get('scope') == 'small' and f.get('small_scope_frozen'):
                if case.get('key') not in frozen_set(f['small_scope_frozen']):
                    continue
            return f
    return None
