#!/bin/sh
# usage: tools/trymuts.sh <mut-name> <ID>...   (patch at /tmp/mut-<name>/patch.diff)
m=$1; shift
echo "######## $m"
/verif/tools/trymut.sh /tmp/mut-$m/patch.diff "$@" 2>&1 | grep -v "^WARNING"
