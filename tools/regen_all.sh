#!/bin/sh
# regenerates evidence/<ID>.json for all properties with the registered quick command, from /verif against /repo
cd "$(dirname "$0")/.."
git -C /repo status --short | grep -v '^??' && { echo "/repo has local modifications"; exit 2; }
fail=0
for i in 01 02 03 04 05 06 07 08 09 10 11 12 13 14 15 16 17 18 19 20; do
  out=$(./bin/check C$i --tier quick 2>&1); rc=$?
  echo "C$i rc=$rc $(echo "$out" | grep -c KNOWN-FINDING) known-finding line(s)"
  echo "$out" | grep VIOLATION
  [ $rc = 0 ] || fail=1
done
exit $fail
