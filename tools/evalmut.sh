#!/bin/bash
# usage: tools/evalmut.sh <name> <demo-dest> "<demo cmd>" <ID>...   confirm a sub-agent's change, then run the checks on it
name=$1; dest=$2; cmd=$3; shift 3
$(dirname $0)/confirm_mut.sh $name $dest "$cmd" 2>&1 | grep -E "CONFIRMED|REJECT|FAILED"
echo "#### $name"
$(dirname $0)/trymut.sh /tmp/mut-$name/patch.diff "$@" 2>&1 | grep -E "^== |VIOLATION|!!" | head -4 | cut -c1-150
