#!/bin/sh
# usage: tools/trymut.sh <patch.diff> <ID> [<ID>...]   applies the patch to /repo (or VERIF_REPO), runs the quick checks, reverts
P=$1; shift
R=${VERIF_REPO:-/repo}; V=$(cd "$(dirname "$0")/.." && pwd)
cd $R && git apply "$P" || { echo "PATCH DOES NOT APPLY"; exit 2; }
cd $V
for id in "$@"; do
  out=$(./bin/check $id 2>/dev/null); rc=$?
  echo "== $id rc=$rc"; echo "$out" | grep -v KNOWN-FINDING | cut -c1-220
done
cd $R && git checkout -- . && git status --short | grep -v '^??' | head
# evidence files were overwritten by the runs against the changed tree: regenerate them from the clean tree
cd $V
for id in "$@"; do ./bin/check $id >/dev/null 2>&1 || echo "!! $id does not pass on the clean tree (restoring evidence)"; done
