#!/bin/bash
# usage: VERIF_REPO=<scratch worktree of /repo> tools/regress_seeded.sh   (run inside a snapshot of /verif, never on /repo itself)
# applies every seeded change to $VERIF_REPO, runs the quick check of its property, reverts; prints one line per change
cd "$(dirname "$0")/.."
R=${VERIF_REPO:?set VERIF_REPO to a scratch worktree}
[ "$R" = /repo ] && { echo "refusing to touch /repo"; exit 2; }
for d in seeded/*/; do
  n=$(basename $d); id=${n:0:3}
  git -C $R checkout -q -- . ; git -C $R clean -fdq
  git -C $R apply $PWD/$d/patch.diff || { echo "$n PATCH-DOES-NOT-APPLY"; continue; }
  out=$(./bin/check $id --tier quick 2>/dev/null); rc=$?
  fi=$(echo "$out" | grep VIOLATION | grep -vc no-failing-input-found)
  nf=$(echo "$out" | grep VIOLATION | grep -c no-failing-input-found)
  echo "$n rc=$rc with-failing-input=$fi without=$nf"
done
git -C $R checkout -q -- . ; git -C $R clean -fdq
