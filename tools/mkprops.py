#!/usr/bin/env python3
"""One-off generator: restate the property theorems of the family libraries in Props/<ID>.lean.
Each restated theorem has the statement written out (copied from the source header) and is proved
by the family theorem, so Props/ holds nothing but statements.  Afterwards the files are maintained by hand."""
import re,sys,os
L='/verif/lean'
MAP={
'C01':['Fu.History Fu.runOps_spec','Fu.History2 Fu.runCommits_spec','Fu.History2 Fu.runOps_cur','Fu.Sampled Fu.sampled_row','Gs.Top Gs.group_spec','Gs.RouteSum Route.run_totals','Bd.Script Bd.translate_realises'],
'C02':['Pl.Anc Pl.mem_ancestors_iff','Pl.CheckSound Pl.step_commit_sound'],
'C03':['Fu.Top Fu.update_refines_splice','Fu.Top2 Fu.update_ok','Fu.Seq Fu.updates_refine','Fu.Guards Fu.update_rejects','Fu.Seq Fu.newFile_wf','Fu.DeltasTop Fu.update_deltas'],
'C04':['Pl.Hib Pl.erase_insertHibernateBoot','Pl.Erase2 Pl.erase_insertHB2','Pl.Awake Pl.insertHB2_awake'],
'C05':['Rb.Root RbM.insert_shape','Rb.RootDel RbM.delete_shape','Rb.Map RbM.insert_toList','Rb.Map RbM.delete_toList','Rb.Inv RbM.reachable_inv','Rb.Lookup RbM.findGE_spec','Rb.Lookup RbM.findLE_spec'],
'C06':['Rb.Alloc RbM.malloc_fresh','Rb.Alloc RbM.insertW_noAlias','Rb.Alloc RbM.deleteW_noAlias','Rb.Clone RbM.cloneDeep_spec','Hb.Round Hb.boot_hibernate',"Hb.Disk Hb.boot_hibernate'",'Hb.Disk Hb.disk_roundtrip','Hb.Round Hb.serialize_after_noop'],
'C07':['Mg.Basic Mg.resolve_spec','Mg.Basic Mg.bestFrom_spec','Bd.MergeSame Bd.merge_all_identical'],
'C08':['Bd.Frame Bd.doOp_frame','Bd.Frame Bd.beginCommit_frame','Bd.Frame Bd.endCommit_frame'],
'C09':['Pl.Transparent Pl.isMerge_erase','Pl.SimTop Pl.run2_transparent'],
'C11':['Ln.Basic Ln.countLines_eq_split','Ln.Basic Ln.splitLines_join','Bd.Canon Bd.translate_ok_of_canon'],
'C12':['Ln.Basic Ln.lineStats_conserve','Pl.OneShot OneShot.counted_once'],
'C13':['Rn.Basic Rn.scan_count','Rn.Basic Rn.scan_partition'],
'C14':['Pl.Run2Spec Pl.consumeAll2_ok','Pl.Run2Spec Pl.stepCore_idx','Pl.Run2Spec Pl.runLoop2_error','Pl.IsMerge Pl.isMerge_iff'],
'C15':['Ts.Kahn Kahn.toposort_sound','Ts.Kahn Kahn.toposortP_sound'],
'C16':['Idn.Basic Idn.consume_total','Idn.Basic Idn.consume_same_email'],
'C17':['Cd.Basic Cd.row_roundtrip'],
'C18':['Idn.DevsSum DevsM.mergeDevs_conserves'],
'C19':['Tk.Basic Tk.floorTime_spec','Tk.Basic Tk.floorTime_dvd','Tk.Basic Tk.tickOf_ge_prev','Tk.Basic Tk.tickOf_spec','Tk.Basic Tk.tickOf_monotone_times'],
'C20':['Td.Apply Td.diffTree_applies','Td.Filter Td.filtered_applies','Td.BlobHealthy Bc.consume_healthy'],
}
def header(mod,full):
    ns,short=full.rsplit('.',1)
    src=open(f"{L}/{mod.replace('.','/')}.lean").read()
    m=re.search(r'^theorem '+re.escape(short)+r'(?=[\s:({\[])',src,re.M)
    assert m,(mod,full)
    i=m.end(); depth=0; j=i
    while True:
        c=src[j]
        if c in '([{⟨': depth+=1
        elif c in ')]}⟩': depth-=1
        elif depth==0 and src.startswith(':=',j): break
        j+=1
    h=src[i:j].strip()
    # split binders / type at first top-level ':' that is not ':='
    depth=0;k=0;split=None
    while k<len(h):
        c=h[k]
        if c in '([{⟨': depth+=1
        elif c in ')]}⟩': depth-=1
        elif depth==0 and c==':' and not h.startswith(':=',k):
            split=k;break
        k+=1
    binders=h[:split].strip(); ty=h[split+1:].strip()
    opens=re.findall(r'^open (.*)$',src,re.M)
    return ns,short,binders,ty,opens
for pid,ths in MAP.items():
    out=[];imports=[];
    for t in ths:
        mod,full=t.split()
        if mod not in imports: imports.append(mod)
    body=[]
    for t in ths:
        mod,full=t.split()
        ns,short,binders,ty,opens=header(mod,full)
        body.append(f"section\nopen {ns}\n"+''.join(f"open {o}\n" for o in opens))
        stmt=(f"∀ {binders},\n    {ty}" if binders else ty)
        body.append(f"theorem {short} :\n    {stmt} :=\n  @{full}\nend\n")
    txt=''.join(f"import {m}\n" for m in imports)+f"\n/-! # {pid} — property theorems (statements only; proofs live in the family libraries) -/\n\nnamespace Props.{pid}\n\n"+'\n'.join(body)+f"\nend Props.{pid}\n"
    p=f"{L}/Props/{pid}.lean"
    if os.path.exists(p) and '--force' not in sys.argv: print('skip',p); continue
    open(p,'w').write(txt)
