#!/bin/bash
# Applies every behaviour-preserving change kept under harmless/ to a scratch worktree (VERIF_REPO, never /repo), runs the
# quick check of every property anchored in the touched files and expects silence (rc=0, no VIOLATION line).
# usage: VERIF_REPO=/path/to/worktree tools/regress_harmless.sh [name ...]
set -u
R=${VERIF_REPO:?set VERIF_REPO to a scratch worktree of /repo}
[ "$(realpath $R)" = /repo ] && { echo "refusing to run on /repo"; exit 2; }
cd "$(dirname "$0")/.."
names=${*:-$(ls harmless)}
bad=0
for n in $names; do
  git -C $R checkout -q -- . ; git -C $R apply "$PWD/harmless/$n/patch.diff" || { echo "$n PATCH-DOES-NOT-APPLY"; bad=1; continue; }
  files=$(git -C $R diff --name-only)
  ids=$(python3 - $files <<'PY'
import json,sys
t=set(sys.argv[1:])
print(' '.join(d['id'] for d in map(json.loads,open('properties.jsonl')) if t & set(d['anchors']['files'])))
PY
)
  for id in $ids; do
    out=$(./bin/check $id 2>/dev/null); rc=$?
    v=$(echo "$out" | grep -c VIOLATION)
    echo "$n $id rc=$rc violations=$v"
    [ $rc -ne 0 -o $v -ne 0 ] && bad=1
  done
done
git -C $R checkout -q -- .
exit $bad
