#!/bin/bash
# usage: tools/tryref.sh <patch.diff>   applies a behaviour-preserving change to /repo, runs the quick checks of every property
# anchored in the touched files (they must all stay quiet), reverts and regenerates the evidence
P=$1
cd /repo && git apply "$P" || { echo "PATCH DOES NOT APPLY"; exit 2; }
files=$(git -C /repo diff --name-only)
ids=$(python3 - $files <<'PY'
import json,sys
touched=set(sys.argv[1:])
out=[]
for l in open('/verif/properties.jsonl'):
    d=json.loads(l)
    if touched & set(d['anchors']['files']): out.append(d['id'])
print(' '.join(out))
PY
)
echo "touched: $files -> properties: $ids"
cd /verif
for id in $ids; do
  out=$(./bin/check $id 2>/dev/null); rc=$?
  echo "== $id rc=$rc $(echo "$out" | grep -c VIOLATION) violation line(s)"; echo "$out" | grep VIOLATION | head -2 | cut -c1-160
done
cd /repo && git checkout -- . && git status --short | grep -v '^??' | head
cd /verif
for id in $ids; do ./bin/check $id >/dev/null 2>&1 || echo "!! $id does not pass on the clean tree"; done
