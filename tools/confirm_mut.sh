#!/bin/bash
# usage: tools/confirm_mut.sh <name> <demo-dest-dir-or-'.'> <run-cmd...>
# Confirms in a scratch worktree of /repo HEAD: (1) with the patch the code builds and the baseline suite passes,
# (2) the demonstration passes without the patch, (3) fails with it.  Prints one summary line; removes the worktree.
name=$1; dest=$2; shift 2
M=/tmp/mut-$name; WT=/tmp/wt-confirm-$name
export GOFLAGS=-mod=mod GOPROXY=off GOSUMDB=off GOTOOLCHAIN=local CGO_CFLAGS=-w
git -C /repo worktree add -q $WT HEAD || exit 2
cd $WT
git apply $M/patch.diff || echo "$name: PATCH FAILED"
go build ./internal/... ./leaves/... . > $WT/.build.log 2>&1; rc_build=$?
go test -vet=off -count=1 ./internal/burndown ./internal/rbtree ./internal/toposort ./internal/levenshtein . > $WT/.tests.log 2>&1; rc_tests=$?
git apply -R $M/patch.diff
mkdir -p $WT/$dest && cp -r $M/demo/. $WT/$dest/
( eval "$@" ) > $WT/.without.log 2>&1; rc_without=$?
git apply $M/patch.diff
( eval "$@" ) > $WT/.with.log 2>&1; rc_with=$?
verdict=REJECT
[ $rc_build = 0 ] && [ $rc_tests = 0 ] && [ $rc_without = 0 ] && [ $rc_with != 0 ] && verdict=CONFIRMED
echo "$name: $verdict build=$rc_build baseline-tests-with-patch=$rc_tests demo-without=$rc_without demo-with=$rc_with"
echo "$name $verdict build=$rc_build baseline=$rc_tests demo_without=$rc_without demo_with=$rc_with cmd=$*" > /tmp/confirm-$name.txt
cd /; git -C /repo worktree remove --force $WT
