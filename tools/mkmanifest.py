#!/usr/bin/env python3
"""Writes MANIFEST.json from tools/manifest_texts.py (level texts) + the property list."""
import json, sys, os
sys.path.insert(0, os.path.dirname(__file__))
from manifest_texts import TEXTS, NOT_APPLICABLE
V = os.path.dirname(os.path.dirname(os.path.abspath(__file__)))
checks = []
for pid in sorted(TEXTS):
    t = TEXTS[pid]
    checks.append(dict(
        property_id=pid,
        quick_cmd='./bin/check %s --tier quick' % pid,
        thorough_cmd='./bin/check %s --tier thorough' % pid,
        evidence_file='evidence/%s.json' % pid,
        replay_cmd_template='./bin/check %s --replay {path}' % pid,
        engine='lean-proof+correspondence',
        level_claimed=dict(category=t.get('category', 'proof'), text=t['text'], design_ref=t.get('ref', 'DESIGN.md section 6 / ' + pid)),
        level_note=t['note'],
        technique=t['technique']))
m = dict(
    version=1,
    setup_cmd='./bin/setup',
    hooks=dict(guard='verif (Go build tag)', enable='go build -tags verif (the harness module under /verif/harness replaces gopkg.in/src-d/hercules.v10 by /repo)',
               baseline_off_cmd='cd /repo && GOFLAGS=-mod=mod go test -vet=off -count=1 ./internal/burndown ./internal/rbtree ./internal/toposort ./internal/levenshtein .',
               source_commits=open(os.path.join(V, 'MANIFEST.hooks')).read().split() if os.path.exists(os.path.join(V, 'MANIFEST.hooks')) else [],
               add_only=True),
    engines=[dict(name='lean-proof+correspondence', path='lean/ (Lean 4 project: models, lemmas, Props/<ID>.lean), harness/ (Go probes), bin/check',
                  serves_properties=sorted(TEXTS), kind_free_text='machine-checked proof in Lean 4 about hand-written executable models; models tied to /repo on every run by differential correspondence (line protocol) and by regenerated facts (lean/Gen)')],
    checks=checks,
    notes='Every check: rebuild harness with -tags verif from /repo working tree, regenerate lean/Gen, lake build Props.<ID>, audit axioms, run correspondences and Go-side oracles, write evidence. known_findings.json lists genuine defects (recorded or fixed).',
    not_applicable=NOT_APPLICABLE)
json.dump(m, open(os.path.join(V, 'MANIFEST.json'), 'w'), indent=1)
print('wrote MANIFEST.json with', len(checks), 'checks')
