"""Level texts of MANIFEST.json, one entry per claimed property.  Kept next to the generator so that the
manifest is regenerated (tools/mkmanifest.py) whenever what is proved changes."""

COMMON_NOTE = 'Trusted: Lean 4.33 kernel; axioms propext, Classical.choice, Quot.sound only (audited per theorem on every run; no sorry/native_decide/bv_decide/own axioms); the hand-written statements in lean/Props; the Lean compiler for the model driver; the Go probes/generators/canonicalisation; the verif-tagged read-only hooks. The models are hand-written; their tie to /repo is the differential correspondence run on every check plus the regenerated constants in lean/Gen. '

TEXTS = {
 'C01': dict(
  text='Proved in Lean (all inputs, no size bound): on a linear history of one file with arbitrary valid edit scripts the tracker replay equals the plain-array replay, every reported delta carries its commit tick, the deltas up to sample T account per birth tick exactly for the lines alive after the last commit with tick <= T (sampled_row), the dense matrix built by groupSparseHistory has the stated shape and cell sums (group_spec), global / per-developer / ownership totals agree (run_totals), and the edit loop of handleModification realises the edit script (translate_realises). Repository level, linear history, any number of files with insertions, deletions and modifications (history_inv, inv_init): after every commit the per-birth-tick sums of the reported deltas equal the birth-tick histogram of the lines alive in the ground-truth arrays, no cumulative cell is negative (hist_nonneg), the total equals the number of live lines (total_lines) and this holds at every sampling point (sampled_rows). The models of File.Update, groupSparseHistory, the three updaters, BurndownAnalysis.Consume (one branch) and Consume/Fork/Merge (DAG, several branches) are validated against the real code on every run. The DAG theorem (conflict-free histories through merges) is not proved: that part is partial = validated multi-branch model + end-to-end ground-truth oracle on generated conflict-free histories through the real Pipeline.Run.',
  note=COMMON_NOTE + 'Modelled, not verified: go-git, diffmatchpatch line identity for repeated lines, renames/binary flips inside Consume (oracle only).',
  technique='Lean 4 proof (induction over commits/ops, refinement to array) + differential correspondence + ground-truth oracle',
 ),
 'C02': dict(
  category='translation_validation',
  text='Every plan the real planner returns is checked by an executable validator (Pl.checkPlan) whose acceptance is proved in Lean to imply the property step by step (step_commit_sound: an accepted replay runs on a live branch holding exactly the ancestry of its last-replayed non-redundant parent, or on a fresh branch for a root; step_merge_sound: an accepted merge joins live branches that all hold the same last commit; mem_ancestors_iff: computed ancestor sets = the inductive ancestor relation; checkPlan_sound: an accepted whole plan analyses every commit of the graph, each the number of times its non-redundant parents demand, and every step satisfies the step obligations). Validated on every run: all graphs of <=5 commits x all hash orders (exhaustive), 6 commits x sampled orders, random graphs to 60 commits; verdicts of the Lean validator and of an independent Go executor must agree on every plan. No universal theorem about the planner itself (the statement is false of the code: two known-finding classes, frozen small-scope lists).',
  note=COMMON_NOTE + 'The planner algorithm (mergeDag, collapseFastForwards, generatePlan) is validated per plan, not proved.',
  technique='translation validation by a Lean-proved plan checker + exhaustive small-scope enumeration',
 ),
 'C03': dict(
  text='Fully proved in Lean for every well-formed tracker state and every operation sequence: update_refines_splice (per-line values = splice of the array), update_ok (well-formedness and length preserved), updates_refine (lift to all sequences), update_deltas (reported deltas keep the histogram equal to the array histogram), update_rejects (a range past the end is refused), newFile_wf. The model is the statement-by-statement mirror of the repaired File.Update; it is compared with the real function (node list, every updater call, panics) on >=30 000 generated sequences per quick run, and the Go array oracle states the property on the implementation.',
  note=COMMON_NOTE + 'Interval list stands for the red-black tree (justified by C05); merge-mark operations are covered by correspondence and oracle only.',
  technique='Lean 4 refinement proof (tracker -> plain array) + differential correspondence + array oracle',
 ),
 'C04': dict(
  text='Proved in Lean for every plan and every hibernation distance: erasing the inserted hibernate/boot actions gives back the input plan (erase_insertHibernateBoot, erase_insertHB2) and in the result every branch is awake at each of its uses and at its disposal, is never hibernated twice or booted while awake, and nothing stays hibernated (insertHB2_awake). collectGarbage: erase_gc (removing the inserted disposals gives back the input), lastMentioned_spec and gc_go_shape (a disposal is placed right after the last action that mentions the branch, and nowhere else). Per-step lifecycle obligations of the validator are proved (step_emerge_sound, step_fork_sound, step_delete_sound: a branch is created only when absent and disposed only when live). collectGarbage and insertHibernateBoot models are compared with the real stage outputs on every run; the base plan lifecycle is validated per plan by the Lean checker on the exhaustive and random graph sets of C02.',
  note=COMMON_NOTE + 'master_has_all (the root branch ends holding every commit) is validated per plan, not proved universally.',
  technique='Lean 4 proof (monitor invariant over all plans and distances) + per-plan validation',
 ),
 'C05': dict(
  text='Proved in Lean on a zipper model that matches the real tree structure-exactly (node indices, colours, min/max, count): insert and delete preserve the red-black shape (equal black height, no red-red, black root), the in-order list of (node index, key, value) changes exactly as an ordered map requires (so untouched elements keep their node: iterator stability), every reachable tree satisfies the invariant (reachable_inv, induction over all operation sequences), FindGE/FindLE return the first/last in-order entry beyond the key, and Len/Min/Max/Get/Next/Prev agree with the in-order list (size_spec, minId_spec, maxId_spec, get_spec, next_spec, prev_spec). Correspondence after every operation on every run (structure incl. parent links, iterators, multi-tree arenas); Go-side invariant checker as oracle.',
  note=COMMON_NOTE + 'Parent-link consistency and Erase are checked by the Go invariant checker and correspondence, not proved; Go slice bounds/nil are not modelled.',
  technique='Lean 4 invariant proof by induction over operations + structure-exact correspondence',
 ),
 'C06': dict(
  text="Proved in Lean: malloc_fresh (an index handed out belongs to no tree and no gap), NoAlias preserved by insert and delete on any tree of a shared arena (insertW_noAlias, deleteW_noAlias), eraseW_noAlias, insert_frame/delete_frame (an operation on one tree of a shared arena leaves every other tree's contents unchanged), cloneDeep_spec, and for every arena and threshold boot(hibernate a)=a, the disk round trip, that a below-threshold/empty allocator is left untouched, and on the byte level of the allocator file: deserialize_serialize (varint + column layout round trip) and prefix_fails (every proper prefix of a file is refused, never read as a shorter arena). Models compared with the real allocator (storage, gaps, hibernation buffers, the three panics) on every run.",
  note=COMMON_NOTE + 'LZ4 (lz4hc.c) is assumed to round-trip; goroutines inside Hibernate/Boot and OS file semantics are not modelled;',
  technique='Lean 4 proof (permutation/invariant arguments, round-trip laws) + differential correspondence',
 ),
 'C07': dict(
  text='Proved in Lean: resolve_spec / bestFrom_spec (each merged line takes the earliest copy with the least real tick, or the merge tick with exactly one report when all copies carry the mark) and merge_all_identical (after the analysis-level merge every participating branch holds the same interval list for every flagged file), flat_rle and merged_nodes_pointwise (expanding the merged interval list gives back exactly the per-line resolution). Per-line model of File.Merge and the multi-branch model of BurndownAnalysis.Merge are compared with the real code on every run.',
  note=COMMON_NOTE + 'The lift of the per-line law through the run-length encoding is proved (flat_rle, merged_nodes_pointwise); the in-place node surgery of File.Merge is tied to the rle form by correspondence.',
  technique='Lean 4 proof + differential correspondence',
 ),
 'C08': dict(
  text='Proved in Lean on the multi-branch burndown model with explicit sharing: whatever change is replayed on one branch, every other branch copy (files, tick, merge author, mergedFiles reference) is unchanged (doOp_frame, beginCommit_frame, endCommit_frame), and on the arena level insert_frame/delete_frame (trees of one allocator do not disturb each other). That the code shares exactly what the model shares is established by correspondence with the real Fork/Consume/Merge on every run (a copy sharing the arena or file map diverges on the first sibling edit) and by the deep-clone correspondence.',
  note=COMMON_NOTE + 'Plumbing items (TreeDiff, BlobCache, TicksSinceStart) per-branch memory: checked by a fork-isolation oracle on the real items, no theorem yet.',
  technique='Lean 4 frame theorem + differential correspondence',
 ),
 'C09': dict(
  text='Proved in Lean: run2_transparent (for items whose Hibernate/Boot cannot fail, running a plan with hibernate/boot actions gives the same result and the same event log modulo H/B events as the erased plan), isMerge_erase, run2_fault_safe (when a Hibernate or Boot fails the run stops with that error and no item is consumed afterwards), plus the allocator round trips of C06 and insertHB2_awake of C04. The interpreter model is compared with the real Pipeline.Run event log including injected Hibernate/Boot failures on every run.',
  note=COMMON_NOTE + "OS behaviour (temp files, truncation) and LZ4 are assumed; burndown's on-disk hibernation glue is covered by correspondence only.",
  technique='Lean 4 simulation proof + differential correspondence with fault injection',
 ),
 'C10': dict(
  category='translation_validation',
  text='Every order the real Pipeline.Initialize returns is checked by the executable validator Ord.orderValid, whose acceptance is proved in Lean to imply the property (orderValid_sound: the order lists every deployed item exactly once and nothing else, and each item comes after every other provider of one of its inputs unless that provider is downstream of it; down_sound: everything the checker exempts as downstream really is). In addition the model of Pipeline.resolve (at most one provider per entity) is compared with the real Initialize on orders and errors, on top of the toposort refinement proved for C15. No universal theorem about resolve itself; duplicated providers beyond base+refiner are a known finding.',
  note=COMMON_NOTE + 'resolve is validated per returned order, not proved; the built-in item table is exercised through the registry by the e10 oracle.',
  technique='translation validation by a Lean-proved order checker + differential correspondence + Go order-validity oracle',
 ),
 'C11': dict(
  text='Proved in Lean: countLines_eq_split (the line counter used when a file is first seen equals the number of lines the diff splitter produces, for every byte string: empty, no final newline, CR LF, invalid UTF-8), splitLines_join, translate_ok_of_canon (a canonical script with positive run lengths is never rejected by the burndown edit loop), validScript_sound (a script accepted by the executable validator has consistent line counts on both sides and applies to the old line array giving the new one). countLines_stripWS (whitespace-ignore mode: removing the spaces never changes the number of lines; the model of stripWhitespace mirrors fix 5c77e2f). Models compared with CountLines / DiffLinesToRunes / stripWhitespace on every run; every diff produced by the real FileDiff on generated blob pairs (incl. very long lines) is checked by the Lean validator and Go-side for the canonical shape and count consistency.',
  note=COMMON_NOTE + 'diffmatchpatch itself and its timeouts are not modelled; whitespace-ignore mode: defect D14 found by the oracle, repaired by a fix: commit.',
  technique='Lean 4 proof + differential correspondence + script validator oracle',
 ),
 'C12': dict(
  text='Proved in Lean: lineStats_conserve (added+changed = inserted, removed+changed = deleted for every script without two deletes in a row) and counted_once (the one-shot merge processor counts every replayed commit exactly once however often a merge commit is replayed). commit_conserves (summing over the files of a commit preserves both equalities). Models compared with LinesStatsCalculator and with the real Pipeline.Run event log on every run.',
  note=COMMON_NOTE + '',
  technique='Lean 4 proof + differential correspondence',
 ),
 'C13': dict(
  text='Proved in Lean: scan_count (for hash-sorted lists the merge scan pairs exactly min(#added,#deleted) per content hash) and scan_partition (it only re-pairs), applyMatches_perm (applying any set of stage-2 similarity matches to the leftover additions/deletions yields renames + leftovers that are a permutation of the input sides: nothing lost, nothing duplicated). Stage 1 is compared with the real RenameAnalysis.Consume on inputs where stages 2-3 cannot match; the full re-pairing property is stated Go-side on every output (all sizes, thresholds, timeouts). Partial: the similarity decision (stage 2 matcher, observed choice) and the goroutine hand-off protocol are not modelled; data races and scheduling cannot be exhibited by the model.',
  note=COMMON_NOTE + 'Unstable sorts and goroutine scheduling are outside the model.',
  technique='Lean 4 proof (stage 1 scan, stage 2 application) + differential correspondence + re-pairing oracle',
 ),
 'C14': dict(
  text='Proved in Lean on the interpreter model of Pipeline.Run: consumeAll2_ok (a successful commit step calls every item of the branch once in resolved order with this commit, index and merge flag, each seeing the output of the last upstream provider for this commit and branch), stepCore_idx (the index grows by one per commit action only), runLoop2_error (an item error aborts the run), isMerge_iff (merge flag true exactly when another replay of the commit exists, for plans with adjacent replays), run2_summary (the summary facts - commit count, begin/end time - are those of the replayed commits). The model event log is compared with the real Pipeline.Run with recording items (fork by copy/sharing, four injected failure kinds) on every run.',
  note=COMMON_NOTE + 'Adjacency of replays is validated per plan (C02), not proved of the planner.',
  technique='Lean 4 proof over an interpreter model + differential correspondence of event logs',
 ),
 'C15': dict(
  text='Proved in Lean: toposortP_sound / toposort_sound (for distinct nodes and distinct edges a reported success is a duplicate-free list of exactly the nodes with every edge pointing forward, for every child order). Completeness: toposortP_complete, not_ranked_of_cycle, toposort_success_iff (success if and only if the graph is acyclic). The concrete graph model (ranks, in-degree counters, unsafeRemoveEdge, re-indexing) is proved to refine the abstract algorithm (G_toposort_sound, G_toposort_complete, G_toposort_cyclic) under premises that are decidable (wfCheck_sound) and evaluated on every well-formed build of the probe; that model is compared with the real toposort.Graph on every run. FindCycle answers are validated by a Lean checker (cycleAnswerOK) and a Go oracle, not proved.',
  note=COMMON_NOTE + '',
  technique='Lean 4 invariant + refinement proof (Kahn, concrete graph) + differential correspondence',
 ),
 'C16': dict(
  text='Proved in Lean: consume_total (every author of the list resolves to an index within range) and consume_same_email (same lower-cased e-mail => same developer), descr_exact and descr_disjoint (the description of a developer lists exactly the names and e-mails that resolve to it, and no name or e-mail appears under two developers). Merge half: walks_components (for input lists whose entries are pairwise token-disjoint - which descr_disjoint establishes for generated lists - the walks of MergeReversedDictsIdentities are exactly the connected components: every identity inside one walk, walks pairwise disjoint and duplicate-free, two tokens in one walk iff connected), descr_eq (merged descriptions = the walks), mergeDicts_index (every input identity gets an entry whose merged index names the walk holding all of its tokens and whose first/second pointer is its original position), same_index_iff (two identities share a merged index iff connected); the premises are decidable (premisesCheck_sound) and evaluated on every well-formed pair of the probe. Models of GeneratePeopleDict+Consume and of MergeReversedDictsIdentities are compared with the real functions on every run; the component structure is also checked Go-side (lists with a token shared inside one list: outside the premise, design finding D9).',
  note=COMMON_NOTE + 'strings.ToLower is an abstract idempotent function; mailmap parsing not modelled.',
  technique='Lean 4 proof + differential correspondence',
 ),
 'C17': dict(
  text='Proved in Lean: row_roundtrip (decode(encode row) = row with negatives clamped, for cells < 2^32; dropped trailing zeros restored). Sparse-row and CSR models are compared with the real Serialize/Deserialize on every run. couples_decode_encode (the couples message: file and people matrices, index tables). devs_decode_encode (the developers message: ticks, developers with the unmatched author written as -1, commits, line and per-language statistics, under the 32-bit width of the format; the wrap-around beyond it is modelled and compared too).',
  note=COMMON_NOTE + 'gogo/protobuf wire encoding is assumed to be the identity on messages.',
  technique='Lean 4 proof + differential correspondence',
 ),
 'C18': dict(
  text='Proved in Lean: mergeDevs_conserves (for every statistic additive over DevTick - commits, added, removed, changed - the total of the combined result is the sum of the inputs, for all identity lists, begin times and tick sizes). Couples (model CmM.merge of CouplesAnalysis.MergeResults + MergeReversedDictsLiteral): merge_fm_cell / merge_pm_cell (every merged cell of the file and developer coupling matrices is the sum of the input cells re-indexed onto it; unmatched author = the extra last row/column), merge_totals (matrix totals conserved), merge_files_spec (the merged file list holds exactly the names of both inputs, duplicate-free, and the merged index of each input file carries its name), merge_lines_spec / merge_lines_at (line counts add up per file name), merge_pf_spec (touched-file lists are the strictly increasing unions over the input developers of the merged identity), pmap_same_iff / pmap1_walk (two developers land in one merged row iff their identities are connected - via the C16 component theorems). Summary: car_merge_spec, car_merge_none (earliest begin, latest end, sum of commit counts; refused only when uninitialised). Models of DevsAnalysis.MergeResults, CouplesAnalysis.MergeResults, CommonAnalysisResult.Merge and MergeReversedDictsIdentities are compared with the real code on every run; Go oracles restate the couples and summary laws, and for burndown results that the history of every merged developer is mergeMatrices of the sums of the histories of exactly its members and the interaction matrix the re-indexed sum (defects D6 and D19 found by this oracle were repaired by fix: commits).',
  note=COMMON_NOTE + 'float32 resampling in mergeMatrices is not modelled.',
  technique='Lean 4 proof + differential correspondence',
 ),
 'C19': dict(
  text='Proved in Lean: floorTime_spec (= t - t mod d), floorTime_dvd, tickOf_spec, tickOf_ge_prev (ticks never decrease along a branch), tickOf_monotone_times (with monotone times no raising, tick depends on the commit alone), record_lists and recordAll_once (the tick-to-commits registry lists every consumed commit exactly once, under its tick). Model compared with FloorTime and the tick arithmetic of Consume on every run (boundaries +-1ns, pre-1990, far future, saturation).',
  note=COMMON_NOTE + 'time.Duration.Truncate is modelled as rounding toward zero and compared with the Go library on boundary inputs on every run.',
  technique='Lean 4 proof (integer arithmetic) + differential correspondence',
 ),
 'C20': dict(
  text='Proved in Lean: diffTree_applies (for trees with unique paths the reported changes applied to the previous set give the current set), filtered_applies (the same for filtered sets under every configuration without an empty path prefix; whitelist patterns that match the empty string included since fix 455a156), consume_healthy (when every referenced blob is present BlobCache succeeds and every referenced hash has a real slot downstream). Models of TreeDiff.Consume+filterDiffs and BlobCache.Consume are compared with the real items on every run.',
  note=COMMON_NOTE + 'go-git tree diff and enry are parameters; language filter: known finding D10; first-commit submodules: D15; D17 (name filter vs the empty name of an absent side) repaired.',
  technique='Lean 4 proof + differential correspondence',
 ),
}

NOT_APPLICABLE = []
